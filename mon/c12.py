"""C12 — preferences read back as set, persist, and bad settings are rejected.

History + executable model.  A history is a list of operations (set_preference / set_mathml / getters) that runs in a
brand-new MathCAT session (driver op `fresh`).  After EVERY operation the monitor records a snapshot through the public API:
get_preference of every known name (prefs.yaml + API defaults + the names used in the history) and the four outputs
(canonical MathML, speech, overview, braille) of the current expression.  The oracle is a sequential model over those
snapshots that knows only what is documented: the kind of each preference (boolean / number / language tag / text, read
from the defaults in prefs.yaml and the documented API defaults), the three normalisations (language tag -> first two
sub-tags, true/false -> lower case, numbers compared numerically) and the derivation of DecimalSeparators/BlockSeparators.
It shares no code with MathCAT."""
import json
import os
import random
import re
import shutil
import string
import tempfile
import time

from . import configs, core, gen, shrink

PROP = "C12"

# --------------------------------------------------------------------------------------------
# what is documented about the preferences
# --------------------------------------------------------------------------------------------
_LINE = re.compile(r"^(\s*)([A-Za-z0-9]+):\s*(.*?)\s*$")
STRICT_NUM = re.compile(r"[+-]?([0-9]+\.?[0-9]*|\.[0-9]+)([eE][+-]?[0-9]+)?")
INFNAN = re.compile(r"[+-]?(inf|infinity|nan)", re.I)
ID_RX = re.compile(r"M[0-9a-z]{7}-([0-9]+)")

# built-in user defaults of prefs.rs that prefs.yaml does not list; used only when the library can read them at start
EXTRA_KNOWN = ["LanguageAuto", "Blind", "UEB_START_MODE", "ResetOverView"]
# documented in interface.rs::set_preference as speech-engine settings
API_SPEECH_ONLY = ["TTS", "Pitch", "Rate", "Volume", "Voice", "Gender", "Bookmark",
                   "CapitalLetters_UseWord", "CapitalLetters_Pitch", "CapitalLetters_Beep"]
UNKNOWN_NAMES = ["NoSuchPreference", "verbosity", "VERBOSITY", "Speech_Verbosity", "ClearSpeak", "Speech", "Language ", " Rate",
                 "", "Préférence", "Braille_BrailleCode", "tts", "X" * 300]
SPECIAL = ["Language", "LanguageAuto", "DecimalSeparator", "DecimalSeparators", "BlockSeparators", "SpeechStyle", "BrailleCode",
           "TTS", "CheckRuleFiles"]
GETTERS = [("get_spoken_text",), ("get_overview_text",), ("get_braille", ""), ("get_braille", "no-such-id"), ("get_navigation_braille",),
           ("get_navigation_mathml",), ("get_navigation_mathml_id",), ("get_braille_position",), ("get_version",)]

# ---- documented non-interference: which outputs an ACCEPTED change of one preference must leave byte-identical (everything else equal).
# Sources: interface.rs::set_preference ("TTS -- SSML, SAPI5, None; Pitch; Rate -- words per minute, should match the current speech rate;
# Volume; Voice; Gender": parameters of the speech ENGINE, they act on the engine markup only), prefs.yaml ("MathRate: change from text speech
# rate (%)"; the groups Speech / Navigation / Braille say what a preference is for).  No golden outputs: the relation compares the same
# expression in the same session before and after the one call.
ENGINE_PARAMETERS = ("Pitch", "Rate", "Volume", "Voice", "Gender", "MathRate")
SPEECH_API = ("TTS", "Bookmark", "CapitalLetters_UseWord", "CapitalLetters_Pitch", "CapitalLetters_Beep")
NONINTERFERENCE = [
    # (who, condition, outputs that must not change)
    ("engine parameters " + "/".join(ENGINE_PARAMETERS), "always", ("canonical MathML", "braille", "navigation position")),
    ("engine parameters " + "/".join(ENGINE_PARAMETERS), "TTS is None/none before and after (plain text: no markup to act on)",
     ("speech", "overview", "navigation speech")),
    ("speech-engine API preferences " + "/".join(SPEECH_API), "always", ("canonical MathML", "braille", "navigation position")),
    ("Speech group of prefs.yaml except Language", "always", ("braille",)),
    ("Braille group of prefs.yaml, UEB_START_MODE", "always", ("canonical MathML", "speech", "overview", "navigation speech", "navigation position")),
    ("Navigation group of prefs.yaml", "always", ("canonical MathML", "speech", "overview", "braille")),
]


def tts_is_none(p):
    t = p.get("TTS", ("err", ""))
    return t[0] == "ok" and t[1].lower() == "none"


def protected_outputs(n, ctx, p, p2):
    """outputs that an accepted set_preference(n, ...) must leave unchanged, with the table row that says so"""
    out = {}
    role = ctx.role.get(n, "other")
    if n in ENGINE_PARAMETERS:
        for x in NONINTERFERENCE[0][2]:
            out.setdefault(x, "engine parameter")
        if tts_is_none(p) and tts_is_none(p2):
            for x in NONINTERFERENCE[1][2]:
                out.setdefault(x, "engine parameter under TTS=None")
    if n in SPEECH_API:
        for x in NONINTERFERENCE[2][2]:
            out.setdefault(x, "speech-engine API preference")
    if role == "speech":
        out.setdefault("braille", "speech-only preference")
    if role == "braille":
        for x in NONINTERFERENCE[4][2]:
            out.setdefault(x, "braille-only preference")
    if role == "navigation":
        for x in NONINTERFERENCE[5][2]:
            out.setdefault(x, "navigation preference")
    return out


NBSP, NNBSP = "\u00a0", "\u202f"
# decimal conventions that are facts about the world (not copied from MathCAT's table); anything else may go either way
CERTAIN_PERIOD = {"en", "en-us", "en-gb", "zh", "zh-tw", "zh-cn", "ja", "ko", "he", "hi", "th", "es-mx"}
CERTAIN_COMMA = {"de", "de-de", "fr", "fr-fr", "sv", "sv-se", "fi", "fi-fi", "es", "es-es", "it", "nl", "da", "nb", "pt-br", "pt-pt",
                 "ru", "pl", "id", "vi", "tr", "cs"}

PROBES = [
    "<math><mfrac><mrow><mi>x</mi><mo>+</mo><mn>1</mn></mrow><mn>2</mn></mfrac><mo>=</mo><msqrt><mi>y</mi></msqrt></math>",
    "<math><mfrac><mrow><mn>3.14</mn><mo>+</mo><mi>x</mi></mrow><mn>2</mn></mfrac></math>",
    "<math><mrow><mn>1,234.5</mn><mo>=</mo><msup><mi>y</mi><mn>2</mn></msup><mo>-</mo><mi>sin</mi><mo>&#x2061;</mo><mi>A</mi></mrow></math>",
    "<math><mrow><mo>(</mo><mtable><mtr><mtd><mn>1</mn></mtd><mtd><mi>b</mi></mtd></mtr><mtr><mtd><mi>c</mi></mtd><mtd><mn>4</mn></mtd></mtr></mtable><mo>)</mo></mrow></math>",
    "<math><mrow><msub><mi mathvariant='normal'>H</mi><mn>2</mn></msub><mi mathvariant='normal'>O</mi><mo>+</mo><msqrt><mi mathvariant='fraktur'>B</mi></msqrt></mrow></math>",
    "<math><mrow><mo>|</mo><mi>x</mi><mo>|</mo><mo>&#x2264;</mo><mn>7</mn><mo>!</mo></mrow></math>",
]
PAUSE_RICH = [
    "<math><mrow><mfrac><mn>1</mn><mrow><mi>a</mi><mo>-</mo><mi>b</mi></mrow></mfrac><mo>+</mo><mroot><mrow><mi>x</mi><mo>+</mo><mn>1</mn></mrow><mn>3</mn></mroot>"
    "<mo>+</mo><msqrt><mfrac><mi>c</mi><mn>2</mn></mfrac></msqrt><mo>=</mo><msup><mi>e</mi><mrow><mi>k</mi><mo>+</mo><mn>1</mn></mrow></msup></mrow></math>",
    "<math><mrow><mi>f</mi><mo>&#x2061;</mo><mrow><mo>(</mo><mi>x</mi><mo>)</mo></mrow><mo>=</mo><mrow><mo>{</mo><mtable><mtr><mtd><mfrac><mi>x</mi><mn>2</mn></mfrac></mtd>"
    "<mtd><mtext>if</mtext></mtd><mtd><mi>x</mi><mo>&gt;</mo><mn>0</mn></mtd></mtr><mtr><mtd><msqrt><mi>x</mi></msqrt></mtd><mtd><mtext>otherwise</mtext></mtd><mtd/></mtr></mtable></mrow></mrow></math>",
]
PROBES += PAUSE_RICH
BAD_MATHML = "<math><mi>x</mi>"
EMPTY_LANG, EMPTY_CODE = "qq", "EmptyCode"
DERIVED = ("DecimalSeparators", "BlockSeparators")
# after the user's prefs.yaml changed, these follow the re-read (derived again / coupled to Language) whatever was set before
EXEMPT_AFTER_FILE = DERIVED + ("LanguageAuto",)
SETTLE = [("get_spoken_text",), ("get_braille", "")]      # getters re-read a changed prefs.yaml (unless CheckRuleFiles=None)


class PrivateRules:
    """Copy of Rules/ (5 MB) with one EMPTY language directory and one EMPTY braille-code directory added.  Selecting them makes the file
    recomputation inside set_preference fail after the request has passed every format check — the only way to reach 'an error although
    the value may already have been stored' that does not depend on a language that happens to be incomplete in the tree."""

    def __enter__(self):
        base = os.path.join(core.WORK, PROP)
        os.makedirs(base, exist_ok=True)
        for old in os.listdir(base):                      # left behind by a killed run
            path = os.path.join(base, old)
            try:
                if old.startswith(("rules-", "xdg-")) and time.time() - os.path.getmtime(path) > 3 * 3600:
                    shutil.rmtree(path, ignore_errors=True)
            except OSError:
                pass
        self.dir = tempfile.mkdtemp(prefix="rules-", dir=base)
        rules = os.path.join(self.dir, "Rules")
        shutil.copytree(core.RULES, rules)
        for sub, name in (("Languages", EMPTY_LANG), ("Braille", EMPTY_CODE)):
            if not os.path.exists(os.path.join(rules, sub, name)):
                os.makedirs(os.path.join(rules, sub, name))
        return rules

    def __exit__(self, *a):
        shutil.rmtree(self.dir, ignore_errors=True)
        try:
            os.rmdir(os.path.join(core.WORK, PROP))
        except OSError:
            pass


def yaml_groups(rules=None):
    """{flattened name: top-level group of prefs.yaml (Speech, Navigation, Braille, Other)} — own reader, the grouping is the documentation
    of what a preference is for"""
    rules = rules or core.RULES
    out, stack = {}, []
    with open(os.path.join(rules, "prefs.yaml"), encoding="utf-8") as f:
        for raw in f:
            line = raw.rstrip("\n")
            if not line.strip() or line.strip().startswith("#") or line.strip() == "---":
                continue
            m = _LINE.match(line.split(" #")[0] if " #" in line else line)
            if not m:
                continue
            indent, key, val = len(m.group(1)), m.group(2), m.group(3)
            while stack and stack[-1][0] >= indent:
                stack.pop()
            if val == "":
                stack.append((indent, key))
                continue
            if stack:
                if len(val) >= 2 and val[0] == '"' and val[-1] == '"':
                    try:
                        val = json.loads(val)
                    except ValueError:
                        val = val[1:-1]
                out["_".join([n for _, n in stack[1:]] + [key])] = (stack[0][1], val)
    return out


def kind_of_default(v):
    if v.lower() in ("true", "false"):
        return "bool"
    if STRICT_NUM.fullmatch(v):
        return "float"
    return "string"


class Ctx:
    """static facts of one run: known names, their kinds, enumerators, documented role"""

    def __init__(self, d):
        self.kinds = d["kinds"]                  # name -> bool|float|string|lang
        self.enums = d["enums"]                  # name -> [documented enumerators]
        self.role = d["role"]                    # name -> braille|speech|other
        self.unknown = d["unknown"]              # made-up names that the library cannot read at start
        self.languages = d["languages"]
        self.styles = d["styles"]
        self.codes = d["codes"]
        self.file_groups = d.get("file_groups", {})      # names that can be written into a user prefs.yaml -> their top-level group
        self.safe_languages = d.get("safe_languages", ["en"])
        self.names = sorted(self.kinds)

    def to_dict(self):
        return {"kinds": self.kinds, "enums": self.enums, "role": self.role, "unknown": self.unknown,
                "languages": self.languages, "styles": self.styles, "codes": self.codes, "file_groups": self.file_groups,
                "safe_languages": self.safe_languages}

    def kind(self, name):
        return self.kinds.get(name)             # None = unknown name


def build_ctx():
    """Reads prefs.yaml and the Rules tree; asks a fresh session which of the candidate names it can read."""
    py = configs.prefs_yaml()
    groups = yaml_groups()
    cand = {}
    enums = {}
    for n, (default, en) in py.items():
        cand[n] = kind_of_default(default)
        enums[n] = [e for e in dict.fromkeys([default] + list(en)) if e != ""]
    for n, default in configs.API_DEFAULTS.items():
        cand[n] = kind_of_default(default)
        enums[n] = [default]
    enums["TTS"] = ["None", "SSML", "SAPI5", "none"]
    enums["IntentErrorRecovery"] = ["IgnoreIntent", "Error"]
    enums["CheckRuleFiles"] = ["Prefs", "All", "None"]
    enums["DecimalSeparator"] = ["Auto", ".", ",", "Custom"]
    enums["DecimalSeparators"] = [".", ",", ".,"]
    enums["BlockSeparators"] = [", " + NBSP + NNBSP, ". " + NBSP + NNBSP, " ", "'"]
    with core.Driver("native") as d:
        probe = sorted(set(cand) | set(EXTRA_KNOWN)) + UNKNOWN_NAMES
        res = d.fresh([("set_rules_dir", core.RULES)] + [("get_preference", n) for n in probe])
    if res[0]["r"] != "ok":
        raise core.Inconclusive("set_rules_dir failed: %s" % res[0])
    readable = {n: r.get("v") for n, r in zip(probe, res[1:]) if r["r"] == "ok"}
    kinds, unknown, defaults_equal, defaults_diff = {}, [], 0, []
    for n in sorted(cand):
        if n not in readable:
            continue                            # documented but unreadable: cannot be monitored through the API
        kinds[n] = cand[n]
        want = groups[n][1] if n in groups else py[n][0] if n in py else configs.API_DEFAULTS[n]
        if values_equal(cand[n], readable[n], want):
            defaults_equal += 1
        else:
            defaults_diff.append("%s: file/default %r reads %r" % (n, want, readable[n]))
    for n in EXTRA_KNOWN:
        if n in readable and n not in kinds:
            kinds[n] = kind_of_default(readable[n])
            enums[n] = [readable[n]] if readable[n] else []
    for n in ("Language", "LanguageAuto"):
        if n in kinds:
            kinds[n] = "lang"
    enums["UEB_START_MODE"] = ["Grade2", "Grade1"]
    for n in UNKNOWN_NAMES:
        if n not in readable and n not in kinds:
            unknown.append(n)
    role = {}
    for n in kinds:
        g = groups.get(n, (None,))[0]
        if g == "Braille" or n == "UEB_START_MODE":
            role[n] = "braille"
        elif (g == "Speech" and n != "Language") or n in API_SPEECH_ONLY:
            role[n] = "speech"
        elif g == "Navigation":
            role[n] = "navigation"
        else:
            role[n] = "other"
    lang_dir = os.path.join(core.RULES, "Languages")
    langs = []
    for l in sorted(os.listdir(lang_dir)):
        if os.path.isdir(os.path.join(lang_dir, l)) and l != "zz":
            langs.append(l)                     # includes directories that only hold regions (their selection may fail: that is wanted)
            for r in sorted(os.listdir(os.path.join(lang_dir, l))):
                if os.path.isdir(os.path.join(lang_dir, l, r)) and r != "SharedRules":
                    langs.append(l + "-" + r)
    styles = sorted({s for l in configs.languages() for s in configs.styles(l)})
    ctx = Ctx({"kinds": kinds, "enums": {k: v for k, v in enums.items() if k in kinds}, "role": role, "unknown": unknown,
               "languages": langs + [EMPTY_LANG, EMPTY_LANG + "-rr"], "styles": styles, "codes": configs.braille_codes() + [EMPTY_CODE],
               "file_groups": {n: g[0] for n, g in groups.items() if n in kinds and n not in DERIVED},
               "safe_languages": configs.languages()})
    return ctx, {"defaults_read_back_equal": defaults_equal, "defaults_read_back_different": defaults_diff,
                 "documented_names_unreadable": sorted(set(cand) - set(kinds))}


# --------------------------------------------------------------------------------------------
# value classes, normalisation, expectations
# --------------------------------------------------------------------------------------------
def _letters(s):
    return s != "" and all(c in string.ascii_letters for c in s)


def _alnum(s):
    return all(c in string.ascii_letters + string.digits for c in s)


def lang_class(v):
    if v == "Auto":
        return "Auto"
    parts = v.split("-")
    lang, region = parts[0], (parts[1] if len(parts) > 1 else "")
    region_ok = len(region) <= 8 and _alnum(region)
    if len(lang) == 2 and _letters(lang) and region_ok:
        return "wellformed"
    if 3 <= len(lang) <= 8 and _letters(lang) and region_ok:
        return "letters3to8"                    # a legal BCP-47 primary sub-tag, outside MathCAT's documented 'en'/'en-gb' form: either answer
    return "malformed"


def norm_lang(v):
    if v == "Auto":
        return v
    parts = v.split("-")
    return parts[0] + ("-" + parts[1] if len(parts) > 1 and parts[1] else "")


def vclass(kind, v):
    """coarse, deterministic class of a value with respect to the kind of the preference it is offered to"""
    low = v.lower()
    if kind == "bool":
        return "bool" if low in ("true", "false") else "nonbool"
    if kind == "float":
        if STRICT_NUM.fullmatch(v):
            return "num"
        if INFNAN.fullmatch(v):
            return "infnan"
        return "bool-looking" if low in ("true", "false") else "nonnum"
    if kind == "lang":
        return lang_class(v)
    if low in ("true", "false"):
        return "bool-looking"
    return "empty" if v == "" else "str"


REPRESENTATIVE_NAME = {"bool": "Overview", "float": "Rate", "string": "Verbosity", "lang": "Language", None: "NoSuchPreference"}
REPRESENTATIVE_VALUE = {"bool": "true", "nonbool": "maybe", "num": "42.5", "nonnum": "abc", "bool-looking": "true", "str": "Xyz", "empty": "",
                        "wellformed": "en", "Auto": "Auto", "infnan": "inf"}


def must_reject(kind, v):
    """the four rejection classes of the statement; everything else may be answered either way"""
    if kind is None:
        return "unknown-name"
    c = vclass(kind, v)
    if kind == "bool" and c == "nonbool":
        return "bool-nonbool"
    if kind == "float" and c in ("nonnum", "bool-looking"):
        return "float-nonnum"
    if kind == "lang" and c == "malformed":
        return "lang-malformed"
    return None


def to_float(s):
    try:
        return float(s) if (STRICT_NUM.fullmatch(s) or INFNAN.fullmatch(s)) else None
    except ValueError:
        return None


def values_equal(kind, got, want):
    if kind == "float":
        a, b = to_float(got), to_float(want)
        if a is None or b is None:
            return got == want
        return a == b or (a != a and b != b)
    if kind == "bool":
        return got == want.lower()
    if kind == "lang":
        return got == norm_lang(want)
    # text: verbatim; a boolean-looking word may come back in lower case (the documented boolean normalisation)
    return got == want or (want.lower() in ("true", "false") and got == want.lower())


def language_in_use(p):
    """the language that selects files and separators: Language, or under Language=Auto the one given with LanguageAuto ('en' while none is known)"""
    lang = p["Language"][1]
    if lang != "Auto":
        return lang
    la = p.get("LanguageAuto", ("err", ""))
    return la[1] if la[0] == "ok" and la[1] not in ("", "Auto") else "en"


def separator_pairs(lang_value, dec):
    """allowed (DecimalSeparators, BlockSeparators) for Language=lang_value, DecimalSeparator=dec after a derivation"""
    lc = lang_value.lower()
    parts = lc.split("-")
    lang, country = parts[0], (parts[1] if len(parts) > 1 else "")
    if dec == ".":
        periods = [True]
    elif dec == ",":
        periods = [False]
    else:
        key = lc if country else lang
        if key in CERTAIN_PERIOD:
            periods = [True]
        elif key in CERTAIN_COMMA:
            periods = [False]
        else:
            periods = [True, False]
    tail = "'" if country in ("ch", "li") else ""
    return {(".", ", " + NBSP + NNBSP + tail) if p else (",", ". " + NBSP + NNBSP + tail) for p in periods}


# --------------------------------------------------------------------------------------------
# running a history
# --------------------------------------------------------------------------------------------
def history_names(history):
    return sorted({op[1] for op in history if op[0] == "set"})


def user_prefs_yaml(values, ctx):
    """text of a user prefs.yaml that gives the (flattened) names these values; booleans and numbers plain, text double-quoted"""
    tree = {"Speech": {}, "Navigation": {}, "Braille": {}, "Other": {}}
    for name, value in sorted(values.items()):
        group = ctx.file_groups.get(name)
        if group is None:
            continue
        node = tree[group]
        parts = name.split("_")
        for part in parts[:-1]:
            node = node.setdefault(part, {})
        node[parts[-1]] = value if ctx.kinds.get(name) in ("bool", "float") else json.dumps(value, ensure_ascii=False)

    def emit(node, indent):
        out = []
        for k, v in node.items():
            if isinstance(v, dict):
                out.append("%s%s:" % (" " * indent, k))
                out.extend(emit(v, indent + 2))
            else:
                out.append("%s%s: %s" % (" " * indent, k, v))
        return out
    lines = ["---"]
    for group, node in tree.items():
        if node:
            lines.append("  %s:" % group)
            lines.extend(emit(node, 4))
        else:
            lines.append("  %s: {}" % group)
    return "\n".join(lines) + "\n"


def compile_history(history, ctx, rules=None):
    """driver ops of one fresh session; returns (ops, names in the snapshot)"""
    """returns (plan, names in the snapshot, layout): plan = list of ("ops", [driver ops]) and ("file", {name: value}) steps, the file steps
    rewrite the user's prefs.yaml from Python between two batches of the same session; layout[i] = number of result slots of history[i]"""
    names = list(ctx.names) + [n for n in history_names(history) if n not in ctx.kinds]
    snap_p = [("get_preference", n) for n in names]
    cur = PROBES[0]
    plan, layout = [], []
    ops = [("set_rules_dir", rules or core.RULES)] + snap_p + snap_o(cur)
    for op in history:
        if op[0] == "set":
            ops.append(("set_preference", op[1], op[2]))
            layout.append(1)
        elif op[0] == "mathml":
            ops.append(("set_mathml", op[1]))
            layout.append(1)
            if op[1] != BAD_MATHML:
                cur = op[1]
        elif op[0] == "userfile":
            plan.append(("ops", ops))
            plan.append(("file", op[1]))
            ops = list(SETTLE)
            layout.append(len(SETTLE))
        else:
            ops.append(tuple(op[1:]))
            layout.append(1)
        ops += snap_p + snap_o(cur)
    plan.append(("ops", ops))
    return plan, names, layout


def snap_o(xml):
    """the outputs of the current expression, recomputed from scratch (set_mathml also puts the navigation position back to the root)"""
    return [("set_mathml", xml), ("get_spoken_text",), ("get_overview_text",), ("get_braille", ""),
            ("do_navigate_command", "ZoomIn"), ("get_navigation_mathml_id",)]


NOUT = 6


def norm_res(r):
    if r["r"] == "ok":
        v = r.get("v")
        return ("ok", ID_RX.sub(r"ID-\1", v if isinstance(v, str) else repr(v)))
    if r["r"] == "err":
        return ("err", ID_RX.sub(r"ID-\1", r.get("e", "")))
    return ("panic", (r.get("p") or {}).get("fn", "").split(" <- ")[0])


class Runner:
    """one driver process; every history runs in a fresh MathCAT session (a new thread of the driver)"""

    def __init__(self, rules=None):
        self.rules = rules
        self.d = None
        self.deaths = 0
        self.sessions = 0
        self.file_edits = 0
        base = os.path.join(core.WORK, PROP)
        os.makedirs(base, exist_ok=True)
        # private user configuration directory: <xdg>/MathCAT/prefs.yaml is the user's preference file of every session of this runner
        self.xdg = tempfile.mkdtemp(prefix="xdg-", dir=base)
        os.makedirs(os.path.join(self.xdg, "MathCAT"))
        self.user_file = os.path.join(self.xdg, "MathCAT", "prefs.yaml")

    def write_user_file(self, values, ctx):
        self.file_edits += 1
        with open(self.user_file, "w", encoding="utf-8") as f:
            f.write(user_prefs_yaml(values, ctx))
        t = 1000000000 + 10 * self.file_edits            # explicit, strictly increasing time stamps: no dependence on clock granularity
        os.utime(self.user_file, (t, t))

    def run(self, history, ctx):
        """returns (op results, P snapshots, O snapshots) indexed 0 = initial, i+1 = after history[i]; None when the driver died.
        The history runs in a brand-new session (thread) of the driver; the user's prefs.yaml does not exist when it starts."""
        plan, names, layout = compile_history(history, ctx, self.rules)
        if self.d is None or not self.d.alive():
            if self.d is not None:
                self.d.close()
            self.d = core.Driver("native", env={"XDG_CONFIG_HOME": self.xdg}, timeout=120)
        if os.path.exists(self.user_file):
            os.remove(self.user_file)
        self.sessions += 1
        sess = "h%d" % self.sessions
        res = []
        try:
            for kind, x in plan:
                if kind == "file":
                    self.write_user_file(x, ctx)
                else:
                    res.extend(self.d.batch(x, s=sess, timeout=120))
            self.d.raw({"op": "end_session", "s": sess})
        except (core.DriverDied, core.DriverTimeout) as e:
            self.deaths += 1
            self.last_failure = str(e)
            self.close_driver()
            return None
        if res[0]["r"] != "ok":
            raise core.Inconclusive("set_rules_dir failed: %s" % res[0])
        np_, pos = len(names), 1
        results, ps, os_ = [], [], []
        for i in range(len(history) + 1):
            if i > 0:
                n = layout[i - 1]
                results.append(res[pos] if history[i - 1][0] != "userfile" else {"r": "ok", "v": None, "settle": [r["r"] for r in res[pos:pos + n]]})
                pos += n
            ps.append({n: norm_res(r) for n, r in zip(names, res[pos:pos + np_])})
            pos += np_
            # an output that is an error is compared by status only: the text of an error is free (it may dump the live tree with the
            # bookkeeping attributes the last getter left on it, e.g. data-nemeth-frac-level)
            os_.append(tuple(("err", "") if r["r"] == "err" else norm_res(r) for r in res[pos:pos + NOUT]))
            pos += NOUT
        return results, ps, os_

    def close_driver(self):
        if self.d is not None:
            self.d.close()
            self.d = None

    def close(self):
        self.close_driver()
        shutil.rmtree(self.xdg, ignore_errors=True)


# --------------------------------------------------------------------------------------------
# the oracle
# --------------------------------------------------------------------------------------------
OUT_NAMES = ("canonical MathML", "speech", "overview", "braille", "navigation speech", "navigation position")


def diff_p(p, p2, ignore=()):
    return sorted(n for n in p if n not in ignore and p[n] != p2[n])


def diff_o(o, o2):
    return [OUT_NAMES[i] for i in range(NOUT) if o[i] != o2[i]]


def panic_class(r):
    p = r.get("p") or {}
    fn = p.get("fn", "").split(" <- ")[0]
    fn = re.sub(r"::\{\{closure\}\}", "", fn)
    fn = re.sub(r"<[^<>]*>", "", fn)
    msg = re.sub(r"[0-9]+", "N", p.get("msg", ""))
    msg = re.sub(r"'[^']*'|\"[^\"]*\"", "'…'", msg)[:80]
    return "%s: %s" % (fn.replace("libmathcat::", ""), msg.strip())


def judge(history, run, ctx, st=None):
    """Sequential model over the snapshots.  Returns a list of findings
    {kind, sub, index, detail}; judging stops at the first finding that changed the state (poisoned session)."""
    results, ps, os_ = run
    findings = []
    api_set = set()          # names whose value was accepted through the API in this session: the files can no longer change them
    file_versions = []       # contents of the user's prefs.yaml written so far
    file_pending = [False]   # a rewritten file may still be unread (it was rewritten while CheckRuleFiles=None switched re-reading off)

    def explained(m, val):
        """the user's prefs.yaml was rewritten: a preference that was never set through the API may take the value a version of the file gives
        it (or, where the file does not name it, its value from the shipped files) whenever MathCAT reads the file again"""
        if m in EXEMPT_AFTER_FILE:
            return True
        if m in api_set or val[0] != "ok" or ps[0].get(m, ("err",))[0] != "ok":
            return False
        return any(values_equal(ctx.kind(m) or "string", val[1], ver.get(m, ps[0][m][1])) for ver in file_versions)

    def unexplained(names_changed, p2):
        return [m for m in names_changed if not (file_versions and explained(m, p2[m]))]

    def add(kind, sub, i, detail, stop, outputs=None):
        # outputs: the finding rests ONLY on these recomputed outputs having changed (to be confirmed by a control run, see attributable())
        findings.append({"kind": kind, "sub": sub, "index": i, "detail": detail, "outputs": outputs})
        return stop

    for i, op in enumerate(history):
        r, p, p2, o, o2 = results[i], ps[i], ps[i + 1], os_[i], os_[i + 1]
        if st:
            for k, x in enumerate(o2):
                if x[0] == "panic":
                    st.count("panic_in_snapshot_call(C08)")
                    key = "%s in %s" % (x[1].replace("libmathcat::", ""), "set_mathml" if k == 0 else "get_" + OUT_NAMES[k].replace(" ", "_"))
                    if key not in st.sets.get("panics_outside_preference_calls(C08)", ()):
                        st.notes.append("C08: %s with non-default preferences %s" % (key, {m: p2[m][1][:24] for m in p2 if p2[m] != ps[0][m]}))
                    st.add("panics_outside_preference_calls(C08)", key)
        if op[0] != "set":
            if r["r"] == "panic":
                if st:
                    st.count("foreign_panic_in_" + (op[1] if op[0] == "get" else "set_mathml"))
                break                                           # C08's business; the session may be poisoned
            if op[0] == "userfile":
                file_versions.append(dict(op[1]))
                if p.get("CheckRuleFiles", ("ok", ""))[1] == "None":
                    file_pending[0] = True
                if st:
                    st.count("user_prefs_file_rewritten")
                    followed = [m for m in diff_p(p, p2) if m in op[1] and m not in api_set]
                    pinned = [m for m in op[1] if m in api_set and m not in EXEMPT_AFTER_FILE and not values_equal(ctx.kind(m), p[m][1], op[1][m])]
                    st.count("preferences_seen_following_the_rewritten_file", len(followed))
                    st.count("api_set_preferences_contradicted_by_rewritten_file", len(pinned))
                    for m in pinned:
                        st.nontrivial.add(core.h16("file|%s|%s" % (m, op[1][m])))
            if st:
                st.evaluations += 1
                st.count("persistence_judgements")
            if (op[0] == "userfile" and not file_pending[0] and all(m in p2 and p2[m][0] == "ok" for m in ("Language", "DecimalSeparator") + DERIVED)
                    and p2["DecimalSeparator"][1] in ("Auto", ",", ".")):
                # the re-read derives the separators again: they must be the ones of the language IN USE and the decimal mark as they read
                # back now (values set through the API win over the file for both), or -- where the application set the separators
                # themselves -- the ones it set
                new = (p2["DecimalSeparators"][1], p2["BlockSeparators"][1])
                allowed = set(separator_pairs(language_in_use(p2), p2["DecimalSeparator"][1]))
                if api_set & set(DERIVED):
                    allowed.add((p["DecimalSeparators"][1], p["BlockSeparators"][1]))
                if st:
                    st.count("separator_derivations_judged_after_file_reread")
                if new not in allowed:
                    add("derived-separators", "after the user's prefs.yaml was re-read", i,
                        "after the rewritten prefs.yaml was read: Language=%r LanguageAuto=%r DecimalSeparator=%r but DecimalSeparators/BlockSeparators = %r, expected %r" % (
                            p2["Language"][1], p2.get("LanguageAuto", ("", ""))[1], p2["DecimalSeparator"][1], new, sorted(allowed)), True)
                    break
            changed = unexplained(diff_p(p, p2), p2)
            if changed:
                what = "set_mathml" if op[0] == "mathml" else "rewriting the user's prefs.yaml" if op[0] == "userfile" else op[1]
                add("not-persistent", "%s changed %s" % (what, ",".join(changed[:3])), i,
                    "%s changed preferences: %s" % (what, "; ".join("%s %r -> %r" % (n, p[n], p2[n]) for n in changed[:5])), True)
                break
            if st and op[0] == "get" and o != o2:
                st.count("outputs_differ_after_getter(C10)")
            continue
        n, v = op[1], op[2]
        kind = ctx.kind(n)
        cls = vclass(kind, v)
        rej = must_reject(kind, v)
        changed_p, changed_o = unexplained(diff_p(p, p2), p2), diff_o(o, o2)
        if st:
            st.evaluations += 1
            st.count("set_preference_%s" % r["r"])
            st.add("set_cases", "%s/%s -> %s" % (kind or "unknown-name", cls, r["r"]))
            prev = history[i - 1] if i else None
            st.nontrivial.add(core.h16("%s|%s|%s|%s" % (n, cls if cls != "str" else v[:24], r["r"], "same" if prev and prev[0] == "set" and prev[1] == n else "-")))
            st.add("names_set", n if kind else "(unknown name)")
        if r["r"] == "panic":
            stop = bool(changed_p or changed_o)
            add("panic", panic_class(r), i, "set_preference(%r, %r) panicked: %s%s" % (n, v[:80], (r.get("p") or {}).get("msg", "")[:200],
                                                                                      " and changed " + ",".join(changed_p + changed_o) if stop else ""), stop,
                outputs=None)
            if stop:
                break
            continue
        if r["r"] == "err":
            if st:
                st.count("rejections_judged_with_snapshot")
                if rej is None and kind in ("lang", "string") and cls in ("wellformed", "str"):
                    st.count("err_for_wellformed_value(file recomputation failed or documented restriction)")
                    st.add("err_for_wellformed_value", "%s=%s: %s" % (n, v[:30], re.sub(r"/[^ ]*/Rules/", "Rules/", r.get("e", "").splitlines()[0])[:100] if r.get("e") else ""))
            if changed_p or changed_o:
                add("err-changed-state", "changed " + ",".join((changed_p + changed_o)[:3]), i,
                    "set_preference(%r, %r) returned Err (%s) but changed: %s %s" % (
                        n, v[:80], r.get("e", "")[:120], "; ".join("%s %r -> %r" % (m, p[m], p2[m]) for m in changed_p[:5]), ",".join(changed_o)), True,
                    outputs=None if changed_p else changed_o)
                break
            continue
        # ---- Ok
        if rej is not None:
            stop = bool(changed_p or changed_o)
            add("accepted-bad", rej, i, "set_preference(%r, %r) returned Ok although %s; afterwards get_preference(%r) = %r" % (
                n, v[:80], {"unknown-name": "the name is not a known preference", "bool-nonbool": "the preference is boolean and the value is not true/false",
                            "float-nonnum": "the preference is a number and the value is not numeric",
                            "lang-malformed": "the value is not a language tag (two ASCII letters, optional alphanumeric region)"}[rej], n, p2.get(n)), stop)
            if stop:
                break
            continue
        if st:
            st.count("accepted_sets_judged")
            if n == "LanguageAuto":
                st.count("accepted_LanguageAuto_sets")
                if p.get("LanguageAuto") != p2.get("LanguageAuto") and api_set & {"Language"}:
                    st.count("accepted_LanguageAuto_sets_after_Language_was_set")
        got = p2[n]
        if got[0] != "ok" or not values_equal(kind, got[1], v):
            add("readback", "%s/%s" % (kind, cls), i, "after Ok set_preference(%r, %r) get_preference returns %r" % (n, v[:80], got), True)
            break
        api_set.add(n)
        # other preferences: unchanged, except the documented couplings
        ignore = {n}
        if n == "Language":
            ignore.add("LanguageAuto")                           # setting Language to Auto re-initialises LanguageAuto (documented in prefs.rs)
        if n in ("Language", "LanguageAuto", "DecimalSeparator"):
            ignore.update(("DecimalSeparators", "BlockSeparators"))     # derived from the decimal mark and the language in use
        side = unexplained(diff_p(p, p2, ignore), p2)
        if side:
            add("side-effect", "%s changed %s" % (n if n in SPECIAL else kind, ",".join(side[:3])), i,
                "Ok set_preference(%r, %r) also changed: %s" % (n, v[:80], "; ".join("%s %r -> %r" % (m, p[m], p2[m]) for m in side[:5])), True)
            break
        if file_pending[0] and n in ("Language", "LanguageAuto", "DecimalSeparator"):
            if st:
                st.count("separator_derivations_not_judged(a rewritten user prefs.yaml may still be unread)")
        elif n in ("Language", "LanguageAuto", "DecimalSeparator") and "DecimalSeparators" in p2 and "Language" in p2 and "DecimalSeparator" in p2:
            old = (p["DecimalSeparators"][1], p["BlockSeparators"][1])
            new = (p2["DecimalSeparators"][1], p2["BlockSeparators"][1])
            lang_now, dec_now = p2["Language"][1], p2["DecimalSeparator"][1]
            lang_auto = p2.get("LanguageAuto", ("err", ""))[1] if p2.get("LanguageAuto", ("err",))[0] == "ok" else ""
            # The separators are a function of the decimal mark and the LANGUAGE IN USE (Language, or under Language=Auto the language given
            # with LanguageAuto; prefs.rs language_in_use).  They are derived again exactly when one of the two really changes; a call that
            # changes neither (Language=Auto taking over the fixed language, Auto again, LanguageAuto naming the language already in use,
            # the same value again) must leave explicitly set separators alone, and a custom decimal mark switches the derivation off.
            eff0, eff1 = language_in_use(p), language_in_use(p2)
            dec0 = p["DecimalSeparator"][1]
            if dec_now not in ("Auto", ",", "."):
                allowed, why = {old}, "DecimalSeparator is custom: the separators are the application's"
            elif eff0 != eff1 or dec0 != dec_now:
                allowed, why = separator_pairs(eff1, dec_now), "language in use %r -> %r, DecimalSeparator %r -> %r: derived again" % (eff0, eff1, dec0, dec_now)
            else:
                allowed, why = {old}, "neither the language in use (%r) nor DecimalSeparator changed: the separators that were set stay" % eff1
            if st and old not in separator_pairs(eff0, dec0 if dec0 in ("Auto", ",", ".") else "Auto"):
                st.count("language_or_mark_calls_with_explicit_separators_in_force")
                if allowed == {old}:
                    st.count("explicit_separators_must_survive_judgements")
            if st:
                st.count("separator_derivations_judged")
            if new not in allowed:
                add("derived-separators", "after %s" % n, i, "Language=%r LanguageAuto=%r DecimalSeparator=%r: DecimalSeparators/BlockSeparators %r -> %r, expected %r (%s)" % (
                    lang_now, lang_auto, dec_now, old, new, sorted(allowed), why), True)
                break
        # independence, limited to what is documented
        protected = protected_outputs(n, ctx, p, p2)
        hit = [x for x in changed_o if x in protected]
        if hit:
            why = protected[hit[0]]
            k = OUT_NAMES.index(hit[0])
            add("independence", "%s changed %s" % (why, ",".join(hit)), i,
                "%s %s=%r (was %r) changed %s: %r -> %r" % (why, n, v[:60], p[n][1][:40], hit, o[k][1][:300], o2[k][1][:300]), True, outputs=hit)
            break
        if st and protected:
            st.count("independence_judgements")
            st.count("noninterference_outputs_compared", len(protected))
            if "speech" in protected and n in ENGINE_PARAMETERS and p[n] != p2[n]:
                st.count("engine_parameter_changed_under_TTS_None")
                if o[1][0] == "ok" and ("," in o[1][1] or ";" in o[1][1]):
                    st.count("engine_parameter_changed_under_TTS_None_on_speech_with_pauses")
    return findings


def attributable(runner, history, f, ctx, st=None):
    """Control run for findings that rest only on recomputed outputs: the same prefix followed by a call that cannot change anything
    (get_version) instead of the judged set_preference.  If the same outputs move there too, the getters themselves are not idempotent in
    that state (e.g. get_braille after a change of BrailleCode changes what the next get_spoken_text says about numbers — C10's subject),
    and the change cannot be blamed on the set_preference call."""
    if not f.get("outputs"):
        return True
    i = f["index"]
    control = list(history[:i]) + [["get", "get_version"]]
    run = runner.run(control, ctx)
    if run is None:
        return False
    o, o2 = run[2][i], run[2][i + 1]
    drift = [x for x in diff_o(o, o2) if x in f["outputs"]]
    if drift:
        if st:
            st.count("output_change_not_attributable(getters not idempotent in this state, C10)")
            st.notes.append("C10: outputs %s drift between two identical snapshot rounds without any call in between, after %s" % (
                drift, abstract_ops(history[:i], ctx, set())[-300:]))
        return False
    return True


# --------------------------------------------------------------------------------------------
# signatures, shrinking
# --------------------------------------------------------------------------------------------
def abstract_ops(history, ctx, abstracted_names):
    order = {}
    out = []
    for op in history:
        if op[0] == "set":
            n, v = op[1], op[2]
            kind = ctx.kind(n)
            k = order.setdefault(n, len(order) + 1)
            label = ("%s@%d" % (kind or "unknown", k)) if (n in abstracted_names or kind is None) else n
            vc = "'%s'" % v if (n == "DecimalSeparator" and v in ("Auto", ".", ",")) else vclass(kind, v)      # the three values that select a derivation
            out.append("set(%s,%s)" % (label, vc))
        elif op[0] == "mathml":
            out.append("set_mathml")
        elif op[0] == "userfile":
            out.append("userfile(%s)" % ",".join(sorted({("%s@%d" % (ctx.kind(m), order[m])) if m in order else (ctx.kind(m) or "?") for m in op[1]})))
        else:
            out.append(op[1])
    return " ; ".join(out)


def find_same(findings, kind, sub, last_index):
    for f in findings:
        if f["kind"] == kind and f["index"] == last_index and (sub is None or f["sub"] == sub):
            return f
    return None


def minimise(runner, history, finding, ctx):
    """history prefix up to the failing op -> (minimal history, finding, names abstracted to their kind)"""
    last = history[finding["index"]]
    prefix = history[:finding["index"]]
    kind = finding["kind"]

    def fails_full(h):
        run = runner.run(h, ctx)
        if run is None:
            return None
        f = find_same(judge(h, run, ctx), kind, None, len(h) - 1)
        return f if f is not None and attributable(runner, h, f, ctx) else None

    def fails(pre):
        return fails_full(list(pre) + [last])

    if prefix:
        if fails([]):
            prefix = []
        else:
            prefix = shrink.shrink_list(prefix, lambda pre: fails(pre) is not None, budget=60)
    h = list(prefix) + [last]
    # a rewritten user file keeps only the names the finding needs
    for i, op in enumerate(h):
        if op[0] != "userfile":
            continue
        for m in sorted(op[1]):
            if len(h[i][1]) > 1:
                h2 = list(h)
                h2[i] = ["userfile", {k: x for k, x in h[i][1].items() if k != m}]
                if fails_full(h2) is not None:
                    h = h2
    # normal form: replace every name by the representative of its kind and every value by the representative of its class, when the
    # finding survives; the names that could be replaced are rendered as kinds in the signature
    abstracted = set()
    for n in history_names(h):
        k = ctx.kind(n)
        rep = REPRESENTATIVE_NAME.get(k)
        if k is None or rep is None or (rep in history_names(h) and rep != n):
            continue
        h2 = [[op[0], rep, op[2]] if op[0] == "set" and op[1] == n else
              ["userfile", {(rep if m == n else m): x for m, x in op[1].items()}] if op[0] == "userfile" else op for op in h]
        run = runner.run(h2, ctx)
        if run is not None and find_same(judge(h2, run, ctx), kind, None, len(h2) - 1):
            h = h2
            abstracted.add(rep)
    for i, op in enumerate(h):
        if op[0] != "set":
            continue
        rep = REPRESENTATIVE_VALUE.get(vclass(ctx.kind(op[1]), op[2]))
        if rep is None or rep == op[2]:
            continue
        h2 = list(h)
        h2[i] = ["set", op[1], rep]
        run = runner.run(h2, ctx)
        if run is not None and find_same(judge(h2, run, ctx), kind, None, len(h2) - 1):
            h = h2
    run = runner.run(h, ctx)
    f = find_same(judge(h, run, ctx), kind, None, len(h) - 1) if run is not None else None
    if f is None or not attributable(runner, h, f, ctx):
        return history[:finding["index"] + 1], finding, set()
    return h, f, abstracted


def signature(h, f, ctx, abstracted):
    return "%s | %s | %s" % (f["kind"], f["sub"], abstract_ops(h, ctx, abstracted))


def abstracted_names_of(h, ctx):
    """names of a stored witness that are the representative of their kind (a witness is stored in normal form)"""
    return {n for n in history_names(h) if REPRESENTATIVE_NAME.get(ctx.kind(n)) == n}


# --------------------------------------------------------------------------------------------
# workload
# --------------------------------------------------------------------------------------------
LONG = "Long" * 750
UNICODE_VALUES = ["Überschall ☃", "𝔘𝔫𝔦", "مرحبا", "e\u0301", "ｔｒｕｅ", "日本語", "\u202eabc", "a\tb\nc", "&lt;<>'\""]
HOSTILE = ["true", "False", "TRUE", "tRuE", "1.5", "0", "abc", "", "maybe", " true", "true ", "yes", "1", "Auto", "en", "None", "null", "~",
           LONG, "-1", "100", "1e2", "NaN", "inf"] + UNICODE_VALUES
NUM_OK = ["0", "80", "1.50", "1e2", "-3.25", "+7", ".5", "5.", "1E-2", "00012.5", "123456789.125", "0.1", "2.675", "1e400", "-0", "77", "100.0"]
ENGINE_VALUES = ["20", "45", "60", "90", "250", "360", "600", "1000", "1200", "5000", "0.5", "-50", "99", "181"]
NUM_BAD = ["abc", "", "1,5", "1.2.3", "12abc", "0x10", "--1", "1 2", " 5", "5 ", "５", "١٢", "1e", "e5", "∞", "1_000", ".", "+", "true", "False", "ten", LONG]
NUM_EDGE = ["inf", "-inf", "NaN", "Infinity", "nan"]
BOOL_OK = ["true", "false", "True", "False", "TRUE", "FALSE", "tRuE", "fALSE"]
BOOL_BAD = ["yes", "no", "1", "0", "", "maybe", " true", "true ", "truee", "t", "f", "on", "off", "1.5", "ｔｒｕｅ", "null", "Auto", LONG, "tru\u0435", "true\n"]
LANG_EXTRA = ["xx", "qq-rr", "EN", "en-GB", "en-US-nyc", "es-419", "en-", "fr", "de-ch", "de", "de-li", "sv-fi", "ja", "Auto", "zz", "pt-br", "es-mx", "fi-FI"]
LANG_3 = ["fil", "haw", "eng", "english", "Auto-x"]
LANG_BAD = ["", "e", "-en", "e-n", "日本", "é", "12", "..", "a/", "en_US", "en-../..", "en us", " en", "en ", "e1", "--", "a b", "en-gb!", "en-" + "x" * 40,
            "auto", "e\u0301", "\u00e9\u00e9", "??", "en-é", LONG, "-", "1-2"]


def gen_value(rng, ctx, name, kind):
    """value for set_preference(name): by the kind of the preference, or (1 in 4) from the hostile pool regardless of kind"""
    if rng.random() < 0.22:
        return rng.choice(HOSTILE)
    if kind is not None and ctx.enums.get(name) and rng.random() < 0.09:
        return ctx.enums[name][0]                        # the value the preference has by default (applications set what is in effect anyway)
    if kind is None:
        return rng.choice(["true", "false", "True", "1.5", "abc", "", "Auto", "Terse", "0", LONG, "☃"])
    if kind == "bool":
        return rng.choice(BOOL_OK) if rng.random() < 0.55 else rng.choice(BOOL_BAD)
    if kind == "float":
        x = rng.random()
        if x < 0.22:
            return rng.choice(ENGINE_VALUES)            # far below / far above the defaults (Rate 180, Volume 100, MathRate 100, Pitch 0)
        if x < 0.5:
            return rng.choice(NUM_OK) if rng.random() < 0.7 else "%d.%02d" % (rng.randint(0, 400), rng.randint(0, 99))
        return rng.choice(NUM_BAD) if x < 0.9 else rng.choice(NUM_EDGE)
    if kind == "lang":
        x = rng.random()
        if x < 0.07:
            return rng.choice([EMPTY_LANG, EMPTY_LANG + "-rr"])          # selection fails inside the file recomputation
        if x < 0.45:
            return rng.choice(ctx.languages + ["en", "Auto"])
        if x < 0.7:
            return rng.choice(LANG_EXTRA)
        if x < 0.76:
            return rng.choice(LANG_3)
        return rng.choice(LANG_BAD)
    pool = list(ctx.enums.get(name, []))
    if name == "SpeechStyle":
        pool += ctx.styles
    if name == "BrailleCode":
        pool += ctx.codes
        if rng.random() < 0.12:
            return EMPTY_CODE                                            # selection fails inside the file recomputation
    x = rng.random()
    if pool and x < 0.55:
        return rng.choice(pool)
    if pool and x < 0.65:
        e = rng.choice(pool)
        return rng.choice([e.lower(), e.upper(), e.swapcase(), " " + e, e + " "])
    if x < 0.75:
        return rng.choice(["NoSuchValue", "Loud", "NoSuchStyle", "NoSuchCode", "../x", "a/b", "C:\\x", "Custom", "Auto"])
    if x < 0.82:
        return ""
    if x < 0.88:
        return LONG
    if x < 0.95:
        return rng.choice(UNICODE_VALUES)
    return rng.choice(["true", "False", "1.5", "0"])


def pick_name(rng, ctx):
    x = rng.random()
    if x < 0.09 and ctx.unknown:
        return rng.choice(ctx.unknown)
    if x < 0.33:
        return rng.choice([n for n in SPECIAL if n in ctx.kinds])
    if x < 0.45:
        return rng.choice([n for n in ctx.names if ctx.kinds[n] == "float"])
    if x < 0.57:
        return rng.choice([n for n in ctx.names if ctx.kinds[n] == "bool"])
    return rng.choice(ctx.names)


CONFUSION = [("bool-looking", "text"), ("num", "text"), ("text", "bool-looking"), ("bool", "num"), ("num", "bool"), ("text", "num"),
             ("bool", "text"), ("text", "text"), ("bool-looking", "bool-looking"), ("num", "num")]


def confusion_value(rng, ctx, name, cls):
    if cls == "bool-looking" or cls == "bool":
        return rng.choice(BOOL_OK)
    if cls == "num":
        return rng.choice(NUM_OK)
    pool = [e for e in ctx.enums.get(name, []) if e.lower() not in ("true", "false") and not STRICT_NUM.fullmatch(e)]
    return rng.choice(pool) if pool and rng.random() < 0.7 else rng.choice(["Xyz", "", "en", "Auto"])


def file_value(rng, ctx, name):
    """a VALID value for `name` as a user would write it into prefs.yaml (the file must always load)"""
    kind = ctx.kinds[name]
    if kind == "bool":
        return rng.choice(["true", "false"])
    if kind == "float":
        return rng.choice(["50", "80", "100", "120", "150.5"])
    if kind == "lang":
        return rng.choice(ctx.safe_languages + ["Auto"])
    if name == "SpeechStyle":
        return rng.choice(ctx.styles)
    if name == "BrailleCode":
        return rng.choice([c for c in ctx.codes if c != EMPTY_CODE])
    pool = [e for e in ctx.enums.get(name, []) if e]
    return rng.choice(pool) if pool else None


def gen_userfile(rng, ctx, h):
    """the user edits prefs.yaml: mostly preferences the application has set before (those must keep the application's value)"""
    earlier = [op[1] for op in h if op[0] == "set" and op[1] in ctx.file_groups]
    eligible = sorted(ctx.file_groups)
    values = {}
    for _ in range(rng.randint(1, 4)):
        name = rng.choice(earlier) if earlier and rng.random() < 0.7 else rng.choice(eligible)
        v = file_value(rng, ctx, name)
        if v is not None:
            values[name] = v
    return ["userfile", values]


def gen_history(rng, ctx, length):
    h = []
    exprs = list(PROBES)
    for _ in range(2):
        exprs.append(gen.Textbook(rng, max_depth=rng.choice([2, 3])).expression()[0].xml())
    # two-step type confusion: store through one path, overwrite through another
    if rng.random() < 0.4:
        for _ in range(rng.randint(1, 2)):
            name = pick_name(rng, ctx)
            a, b = rng.choice(CONFUSION)
            h.append(["set", name, confusion_value(rng, ctx, name, a)])
            if rng.random() < 0.3:
                h.append(["get"] + list(rng.choice(GETTERS)))
            h.append(["set", name, confusion_value(rng, ctx, name, b)])
            if rng.random() < 0.5:
                h.append(["set", name, confusion_value(rng, ctx, name, rng.choice(["text", "bool", "num"]))])
    while len(h) < length:
        x = rng.random()
        if x < 0.66:
            name = pick_name(rng, ctx)
            h.append(["set", name, gen_value(rng, ctx, name, ctx.kind(name))])
            if rng.random() < 0.12:                         # same name again, other class
                h.append(["set", name, gen_value(rng, ctx, name, ctx.kind(name))])
        elif x < 0.78:
            h.append(["mathml", BAD_MATHML if rng.random() < 0.08 else rng.choice(exprs)])
        elif x < 0.83:
            h.append(gen_userfile(rng, ctx, h))
        else:
            h.append(["get"] + list(rng.choice(GETTERS)))
    # the documented protocol of LanguageAuto: a fixed language, back to Auto, then the application announces the document's language
    # (LanguageAuto can only be set while Language=Auto, so random choice alone almost never gets an ACCEPTED set of it)
    if "LanguageAuto" in ctx.kinds and rng.random() < 0.3:
        steps = []
        if rng.random() < 0.75:
            steps.append(["set", "Language", rng.choice(ctx.safe_languages + ["fr", "de", "xx"])])
        steps.append(["set", "Language", "Auto"])
        for _ in range(rng.randint(1, 3)):
            steps.append(["set", "LanguageAuto", rng.choice(ctx.safe_languages + ["fr", "de-ch", "xx", "en-US-nyc"])])
        pos = sorted(rng.randint(0, len(h)) for _ in steps)
        for k, (at, step) in enumerate(zip(pos, steps)):
            h.insert(at + k, step)
    # the documented way to give the separators explicitly (DecimalSeparator: Custom, then both lists), followed by Language / LanguageAuto
    # calls that do and do not change the language in use
    if rng.random() < 0.3:
        lang = rng.choice(ctx.safe_languages + ["de", "fr", "de-ch"])
        steps = []
        if rng.random() < 0.8:
            steps.append(["set", "Language", lang])
        if rng.random() < 0.65:
            steps.append(["set", "DecimalSeparator", "Custom"])
        steps.append(["set", "DecimalSeparators", rng.choice([".", ",", ".,", "\u066b"])])
        steps.append(["set", "BlockSeparators", rng.choice([", ", ". ", " ", "'", ",", NBSP])])
        for _ in range(rng.randint(1, 4)):
            steps.append(rng.choice([["set", "Language", "Auto"], ["set", "Language", "Auto"], ["set", "LanguageAuto", lang], ["set", "Language", lang],
                                     ["set", "Language", rng.choice(ctx.safe_languages)], ["set", "LanguageAuto", rng.choice(ctx.safe_languages)],
                                     ["set", "DecimalSeparator", rng.choice(["Auto", ".", ",", "Custom"])]]))
        pos = sorted(rng.randint(0, len(h)) for _ in steps)
        for k, (at, step) in enumerate(zip(pos, steps)):
            h.insert(at + k, step)
    return h


def precluster_key(history, f, ctx):
    """cheap key: one representative per key is shrunk.  The sub-check text is part of the key only where it names a cause (panic site,
    rejection class); for state-change findings it names the preference that happened to be hit, which varies freely for one cause."""
    op = history[f["index"]]
    sub = f["sub"] if f["kind"] in ("panic", "accepted-bad", "independence", "derived-separators") else ""
    if op[0] != "set":
        return (f["kind"], sub, "set_mathml" if op[0] == "mathml" else "userfile" if op[0] == "userfile" else "getter")
    kind = ctx.kind(op[1])
    prev_same = any(o[0] == "set" and o[1] == op[1] for o in history[:f["index"]])
    return (f["kind"], sub, op[1] if op[1] in SPECIAL else kind, vclass(kind, op[2]), prev_same)


def shard(spec):
    st = core.Stats()
    rng = random.Random(spec["seed"])
    ctx = Ctx(spec["ctx"])
    deadline = time.time() + spec["time_budget"]
    shrink_deadline = deadline + spec["shrink_budget"]
    runner = Runner(spec.get("rules"))
    seen = {}
    try:
        for hi in range(spec["histories"]):
            if time.time() > deadline:
                st.count("stopped_by_time_budget")
                break
            h = gen_history(rng, ctx, rng.randint(spec["min_len"], spec["max_len"]))
            run = runner.run(h, ctx)
            if run is None:
                st.inconclusive += 1
                st.count("driver_died_or_timed_out")
                st.notes.append("driver failure (inconclusive): " + runner.last_failure[:200])
                continue
            st.count("histories")
            st.count("operations", len(h))
            findings = [f for f in judge(h, run, ctx, st) if attributable(runner, h, f, ctx, st)]
            if hi == 0:
                sets = [(op, run[0][i]["r"], run[1][i + 1].get(op[1])) for i, op in enumerate(h) if op[0] == "set"][:6]
                st.sample({"history_prefix": [[o[0], o[1][:30], o[2][:30]] for o, _, _ in sets], "results": [r for _, r, _ in sets],
                           "read_back": [list(g) if g else None for _, _, g in sets]}, limit=2)
            for f in findings:
                st.count("raw_findings_" + f["kind"])
                key = precluster_key(h, f, ctx)
                if key in seen:
                    seen[key]["count"] += 1
                    continue
                if time.time() > shrink_deadline:
                    small, f2 = h[:f["index"] + 1], f
                    abstracted = set(history_names(small))
                    st.count("unshrunk_findings(time)")
                else:
                    small, f2, abstracted = minimise(runner, h, f, ctx)
                v = core.violation(f2["kind"], signature(small, f2, ctx, abstracted), {"ops": small}, f2["detail"][:900])
                v["count"] = 1
                seen[key] = v
                st.violations.append(v)
    finally:
        runner.close()
    st.count("driver_deaths", runner.deaths)
    return st.to_dict()


# --------------------------------------------------------------------------------------------
# replay, run
# --------------------------------------------------------------------------------------------
_CTX = None


def get_ctx():
    global _CTX
    if _CTX is None:
        _CTX = build_ctx()
    return _CTX


def replay(witness):
    core.build_driver("native")
    ctx, _ = get_ctx()
    h = [list(op) for op in witness["ops"]]
    with PrivateRules() as rules:
        runner = Runner(rules)
        try:
            run = runner.run(h, ctx)
            if run is None:
                return []
            out = []
            for f in judge(h, run, ctx):
                if not attributable(runner, h, f, ctx):
                    continue
                hh = h[:f["index"] + 1]
                out.append(core.violation(f["kind"], signature(hh, f, ctx, abstracted_names_of(hh, ctx)), {"ops": hh}, f["detail"][:900]))
            return out
        finally:
            runner.close()


def run(tier, seed):
    t0 = time.time()
    core.build_driver("native")
    ctx, ctx_report = get_ctx()
    nsh = core.NPROC
    quick = tier == "quick"
    total_hist = int(os.environ.get("C12_HISTORIES", "0")) or (2400 if quick else 120000)
    specs = [{"seed": core.sub_seed(seed, PROP, i), "ctx": ctx.to_dict(), "histories": (total_hist + nsh - 1) // nsh,
              "min_len": 12, "max_len": 40 if quick else 70, "time_budget": 50 if quick else 1200, "shrink_budget": 25 if quick else 240}
             for i in range(nsh)]
    with PrivateRules() as rules:
        for sp in specs:
            sp["rules"] = rules
        results = core.run_shards(shard, specs)
    stats, errors = core.Stats.merge(results)
    known, fixed_failures, extra_v = core.replay_findings(PROP, replay)
    stats.violations.extend(extra_v)
    kinds = {}
    for n, k in ctx.kinds.items():
        kinds[k] = kinds.get(k, 0) + 1
    extra = {"known_names": len(ctx.kinds), "names_by_kind": kinds, "unknown_names_used": ctx.unknown,
             "noninterference_table": [{"preferences": a, "condition": b, "outputs_must_not_change": list(c)} for a, b, c in NONINTERFERENCE],
             "braille_only_names": sorted(n for n, r in ctx.role.items() if r == "braille"),
             "speech_only_names": sorted(n for n, r in ctx.role.items() if r == "speech"),
             "navigation_names": sorted(n for n, r in ctx.role.items() if r == "navigation")}
    extra.update(ctx_report)
    names_set = stats.sets.get("names_set", set())
    extra["known_names_never_set"] = sorted(set(ctx.kinds) - set(names_set))
    need = 400 if quick else 1500
    if stats.counters.get("accepted_sets_judged", 0) < 200 or stats.counters.get("rejections_judged_with_snapshot", 0) < 100 \
            or stats.counters.get("persistence_judgements", 0) < 200 or stats.counters.get("separator_derivations_judged", 0) < 20 \
            or stats.counters.get("api_set_preferences_contradicted_by_rewritten_file", 0) < 10 \
            or stats.counters.get("preferences_seen_following_the_rewritten_file", 0) < 10 \
            or stats.counters.get("accepted_LanguageAuto_sets", 0) < 5 \
            or stats.counters.get("engine_parameter_changed_under_TTS_None_on_speech_with_pauses", 0) < 20 \
            or stats.counters.get("explicit_separators_must_survive_judgements", 0) < 20:
        stats.notes.append("too few observations of one of: accepted sets, rejections, persistence judgements, separator derivations, "
                           "API-set preferences contradicted by a rewritten user prefs.yaml, preferences following the rewritten file (= it was "
                           "really read again), accepted sets of LanguageAuto, engine parameters changed under TTS=None on speech that has pauses, "
                           "Language/LanguageAuto/DecimalSeparator calls that must leave explicitly set separators alone")
        need = 10 ** 9
    return core.conclude(
        PROP, tier, seed, "exploration", stats, extra,
        ["the kind of a preference (boolean, number, language tag, text) is the kind of its default in prefs.yaml / the documented API defaults",
         "a language tag is well formed when its first sub-tag is two ASCII letters and its region, if any, is 1-8 ASCII letters or digits; "
         "3-8 letter first sub-tags, inf/nan for numbers and boolean-looking words for text preferences may be answered either way",
         "an Err answer of set_preference must leave every preference and every output unchanged, whatever the reason of the error",
         "after the user's prefs.yaml was rewritten, a preference that was accepted through the API before keeps the API's value; one that was never set "
         "through the API may take the file's value at any later call; DecimalSeparators/BlockSeparators/LanguageAuto follow the re-read; the separator "
         "derivation is not judged while a rewritten file may still be unread (it was rewritten under CheckRuleFiles=None)",
         "the separators are a function of DecimalSeparator and the language in use (Language, or LanguageAuto under Language=Auto, 'en' while none is "
         "known): derived again exactly when one of the two changes, left alone otherwise and whenever DecimalSeparator is a custom value",
         "independence is only judged for preferences of the Braille group of prefs.yaml (must not change MathML/speech/overview) and of the Speech group "
         "plus the documented speech-engine API preferences (must not change braille); get_navigation_node_from_braille_position is left to C20"],
        t0,
        rule="random histories (12-70 operations, each in a fresh session) of set_preference over every known name and made-up names x value classes "
             "(documented enumerators, unknown enumerator, wrong kind, empty, other case, padded, very long, Unicode, path-like), two-step type-confusion "
             "sequences on one name, the LanguageAuto protocol (fixed language, back to Auto, LanguageAuto), set_mathml (valid and invalid), all getters, and "
             "rewrites of the user's prefs.yaml (private XDG_CONFIG_HOME, strictly newer time stamp, mostly naming preferences the application has set); "
             "after every operation all preferences are read back and the four "
             "outputs of the current expression are recomputed; non-trivial = a set_preference call judged against the model with the full snapshot; "
             "distinct by (name, value class or text value, result, same name as the previous call)",
        min_nontrivial=need, harness_errors=errors, known_replayed=known, fixed_failures=fixed_failures)
