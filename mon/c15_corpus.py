"""Corpus for C15: a fixed list that contains every MathML element kind, the expressions of the repository's own test files (inputs only —
the expected strings are never read, so nothing here is a golden comparison) and seeded textbook samples."""
import html.entities
import os
import re
import xml.etree.ElementTree as ET

from . import core, gen

# every presentation element of MathML 3 (incl. elementary-math layout and deprecated ones) + the semantics family
ELEMENT_KINDS = ["math", "mi", "mn", "mo", "mtext", "mspace", "ms", "mglyph", "mrow", "mfrac", "msqrt", "mroot", "mstyle", "merror", "mpadded", "mphantom",
                 "mfenced", "menclose", "msub", "msup", "msubsup", "munder", "mover", "munderover", "mmultiscripts", "mprescripts", "none", "mtable",
                 "mlabeledtr", "mtr", "mtd", "maligngroup", "malignmark", "mstack", "mlongdiv", "msgroup", "msrow", "mscarries", "mscarry", "msline",
                 "maction", "semantics", "annotation", "annotation-xml"]

FIXED = [
    "<math><mi>x</mi></math>",
    "<math><mn>3.14</mn></math>",
    "<math><mo>+</mo></math>",
    "<math><mtext>such that</mtext></math>",
    "<math><ms>abc</ms></math>",
    "<math><mrow><mi>a</mi><mspace width='1em'/><mi>b</mi></mrow></math>",
    "<math><mi><mglyph src='x.png' alt='ex'/></mi></math>",
    "<math><mrow><mi>a</mi><mo>+</mo><mi>b</mi><mo>=</mo><mn>7</mn></mrow></math>",
    "<math><mfrac><mn>1</mn><mn>2</mn></mfrac></math>",
    "<math><mfrac><mrow><mi>x</mi><mo>+</mo><mn>1</mn></mrow><mrow><mi>y</mi><mo>-</mo><mn>4</mn></mrow></mfrac></math>",
    "<math><mfrac bevelled='true'><mi>a</mi><mi>b</mi></mfrac></math>",
    "<math><mrow><mo>(</mo><mfrac linethickness='0'><mi>n</mi><mi>k</mi></mfrac><mo>)</mo></mrow></math>",
    "<math><mrow><mn>3</mn><mfrac><mn>1</mn><mn>2</mn></mfrac></mrow></math>",
    "<math><msqrt><mi>x</mi></msqrt></math>",
    "<math><msqrt><mrow><msup><mi>b</mi><mn>2</mn></msup><mo>-</mo><mn>4</mn><mi>a</mi><mi>c</mi></mrow></msqrt></math>",
    "<math><mroot><mi>x</mi><mn>3</mn></mroot></math>",
    "<math><mroot><mrow><mi>x</mi><mo>+</mo><mn>1</mn></mrow><mi>n</mi></mroot></math>",
    "<math><mstyle displaystyle='true' mathcolor='red'><mi>x</mi><mo>+</mo><mn>1</mn></mstyle></math>",
    "<math><merror><mtext>bad input</mtext></merror></math>",
    "<math><mrow><mi>a</mi><mo>+</mo><merror><mi>b</mi></merror></mrow></math>",
    "<math><mpadded width='+1em'><mi>x</mi><mo>+</mo><mi>y</mi></mpadded></math>",
    "<math><mrow><mi>a</mi><mo>+</mo><mphantom><mi>b</mi></mphantom><mo>+</mo><mi>c</mi></mrow></math>",
    "<math><mfenced><mi>a</mi><mi>b</mi></mfenced></math>",
    "<math><mfenced open='[' close=')' separators=';'><mn>0</mn><mn>1</mn></mfenced></math>",
    "<math><mi>f</mi><mo>&#x2061;</mo><mfenced><mi>x</mi></mfenced></math>",
    "<math><menclose notation='box'><mi>x</mi><mo>+</mo><mn>1</mn></menclose></math>",
    "<math><menclose notation='longdiv'><mn>125</mn></menclose></math>",
    "<math><menclose notation='updiagonalstrike'><mn>12</mn></menclose></math>",
    "<math><menclose notation='circle'><mn>3</mn></menclose></math>",
    "<math><menclose notation='actuarial'><mi>n</mi></menclose></math>",
    "<math><menclose notation='radical'><mn>7</mn></menclose></math>",
    "<math><menclose notation='top bottom'><mi>y</mi></menclose></math>",
    "<math><msub><mi>x</mi><mn>1</mn></msub></math>",
    "<math><msup><mi>x</mi><mn>2</mn></msup></math>",
    "<math><msup><mi>x</mi><mrow><mi>n</mi><mo>+</mo><mn>1</mn></mrow></msup></math>",
    "<math><msup><mi>f</mi><mo>&#x2032;</mo></msup></math>",
    "<math><msubsup><mi>x</mi><mi>i</mi><mn>2</mn></msubsup></math>",
    "<math><munder><mi>lim</mi><mrow><mi>x</mi><mo>&#x2192;</mo><mn>0</mn></mrow></munder><mfrac><mrow><mi>sin</mi><mo>&#x2061;</mo><mi>x</mi></mrow><mi>x</mi></mfrac></math>",
    "<math><munder><mi>x</mi><mo>_</mo></munder></math>",
    "<math><mover><mi>x</mi><mo>&#xAF;</mo></mover></math>",
    "<math><mover><mi>v</mi><mo>&#x2192;</mo></mover></math>",
    "<math><mover><mrow><mi>A</mi><mi>B</mi></mrow><mo>&#x2194;</mo></mover></math>",
    "<math><munderover><mo>&#x2211;</mo><mrow><mi>i</mi><mo>=</mo><mn>1</mn></mrow><mi>n</mi></munderover><msub><mi>a</mi><mi>i</mi></msub></math>",
    "<math><msubsup><mo>&#x222B;</mo><mn>0</mn><mn>1</mn></msubsup><mi>f</mi><mo>(</mo><mi>x</mi><mo>)</mo><mo>&#x2062;</mo><mi>d</mi><mi>x</mi></math>",
    "<math><munderover><mi>X</mi><mi>a</mi><mi>b</mi></munderover></math>",
    "<math><mmultiscripts><mi>X</mi><mn>1</mn><mn>2</mn><mprescripts/><mn>3</mn><mn>4</mn></mmultiscripts></math>",
    "<math><mmultiscripts><mi>C</mi><none/><none/><mprescripts/><mn>6</mn><mn>14</mn></mmultiscripts></math>",
    "<math><mmultiscripts><mi>R</mi><mi>i</mi><none/><none/><mi>j</mi></mmultiscripts></math>",
    "<math><mtable><mtr><mtd><mn>1</mn></mtd><mtd><mn>2</mn></mtd></mtr><mtr><mtd><mn>3</mn></mtd><mtd><mn>4</mn></mtd></mtr></mtable></math>",
    "<math><mrow><mo>(</mo><mtable><mtr><mtd><mi>a</mi></mtd><mtd><mi>b</mi></mtd></mtr><mtr><mtd><mi>c</mi></mtd><mtd><mi>d</mi></mtd></mtr></mtable><mo>)</mo></mrow></math>",
    "<math><mrow><mo>|</mo><mtable><mtr><mtd><mi>a</mi></mtd><mtd><mi>b</mi></mtd></mtr><mtr><mtd><mi>c</mi></mtd><mtd><mi>d</mi></mtd></mtr></mtable><mo>|</mo></mrow></math>",
    "<math><mrow><mo>[</mo><mtable><mtr><mtd><mn>1</mn></mtd></mtr><mtr><mtd><mn>2</mn></mtd></mtr><mtr><mtd><mn>3</mn></mtd></mtr></mtable><mo>]</mo></mrow></math>",
    "<math><mrow><mi>f</mi><mo>(</mo><mi>x</mi><mo>)</mo><mo>=</mo><mo>{</mo><mtable><mtr><mtd><mi>x</mi></mtd><mtd><mtext>if </mtext><mi>x</mi><mo>&gt;</mo><mn>0</mn></mtd></mtr>"
    "<mtr><mtd><mn>0</mn></mtd><mtd><mtext>otherwise</mtext></mtd></mtr></mtable></mrow></math>",
    "<math><mtable><mlabeledtr><mtd><mtext>(1)</mtext></mtd><mtd><mi>E</mi><mo>=</mo><mi>m</mi><msup><mi>c</mi><mn>2</mn></msup></mtd></mlabeledtr></mtable></math>",
    "<math><mtable><mtr><mtd><maligngroup/><mn>2</mn><mi>x</mi><maligngroup/><mo>=</mo><maligngroup/><mn>4</mn></mtd></mtr>"
    "<mtr><mtd><maligngroup/><mi>x</mi><maligngroup/><mo>=</mo><maligngroup/><mn>2</mn></mtd></mtr></mtable></math>",
    "<math><mtable><mtr><mtd><mi>x</mi><malignmark/><mo>=</mo><mn>1</mn></mtd></mtr><mtr><mtd><mi>y</mi><malignmark/><mo>=</mo><mn>22</mn></mtd></mtr></mtable></math>",
    "<math><mstack><mn>424</mn><msrow><mo>+</mo><mn>33</mn></msrow><msline/><mn>457</mn></mstack></math>",
    "<math><mstack><mscarries><mscarry><none/></mscarry><mn>1</mn></mscarries><mn>58</mn><msrow><mo>+</mo><mn>27</mn></msrow><msline/><mn>85</mn></mstack></math>",
    "<math><mstack><msgroup><mn>123</mn><msrow><mo>&#xD7;</mo><mn>321</mn></msrow></msgroup><msline/><msgroup shift='1'><mn>123</mn><mn>246</mn><mn>369</mn></msgroup><msline/><mn>39483</mn></mstack></math>",
    "<math><mlongdiv><mn>3</mn><mn>435.3</mn><mn>1306</mn><msgroup position='2' shift='-1'><msgroup><mn>12</mn><msline length='2'/></msgroup></msgroup></mlongdiv></math>",
    "<math><maction actiontype='toggle'><mi>a</mi><mi>b</mi></maction></math>",
    "<math><maction actiontype='tooltip'><mfrac><mn>1</mn><mi>x</mi></mfrac><mtext>one over x</mtext></maction></math>",
    "<math><semantics><mrow><mi>x</mi><mo>+</mo><mn>1</mn></mrow><annotation encoding='application/x-tex'>x+1</annotation></semantics></math>",
    "<math><semantics><mi>x</mi><annotation-xml encoding='MathML-Content'><ci>x</ci></annotation-xml></semantics></math>",
    "<math display='block'><mi>E</mi><mo>=</mo><mi>m</mi><msup><mi>c</mi><mn>2</mn></msup></math>",
    "<math><mrow><mo>|</mo><mi>x</mi><mo>|</mo></mrow></math>",
    "<math><mrow><mo>{</mo><mi>x</mi><mo>|</mo><mi>x</mi><mo>&gt;</mo><mn>0</mn><mo>}</mo></mrow></math>",
    "<math><mrow><mo>(</mo><mn>1</mn><mo>,</mo><mn>2</mn><mo>]</mo></mrow></math>",
    "<math><mrow><mi>sin</mi><mo>&#x2061;</mo><mi>x</mi><mo>+</mo><msup><mi>cos</mi><mn>2</mn></msup><mo>&#x2061;</mo><mi>y</mi></mrow></math>",
    "<math><mrow><msup><mi>sin</mi><mrow><mo>-</mo><mn>1</mn></mrow></msup><mo>&#x2061;</mo><mi>x</mi></mrow></math>",
    "<math><mrow><mi>log</mi><mo>&#x2061;</mo><mi>x</mi><mo>+</mo><mi>ln</mi><mo>&#x2061;</mo><mi>y</mi><mo>+</mo><msub><mi>log</mi><mn>2</mn></msub><mo>&#x2061;</mo><mn>8</mn></mrow></math>",
    "<math><mrow><mfrac><mrow><mi>d</mi><mi>y</mi></mrow><mrow><mi>d</mi><mi>x</mi></mrow></mfrac><mo>+</mo><mfrac><mrow><mo>&#x2202;</mo><mi>f</mi></mrow><mrow><mo>&#x2202;</mo><mi>t</mi></mrow></mfrac></mrow></math>",
    "<math><mrow><mi>n</mi><mo>!</mo><mo>+</mo><mn>5</mn><mo>%</mo></mrow></math>",
    "<math><mrow><msub><mi mathvariant='normal'>H</mi><mn>2</mn></msub><mi mathvariant='normal'>O</mi></mrow></math>",
    "<math><mrow><mn>2</mn><msub><mi>H</mi><mn>2</mn></msub><mo>+</mo><msub><mi>O</mi><mn>2</mn></msub><mo>&#x2192;</mo><mn>2</mn><msub><mi>H</mi><mn>2</mn></msub><mi>O</mi></mrow></math>",
    "<math><mrow><mn>5</mn><mo>&#x2062;</mo><mi mathvariant='normal' intent=':unit'>km</mi></mrow></math>",
    "<math><mrow><mn>1,234.5</mn><mo>+</mo><mn>0.25</mn><mo>-</mo><mn>17</mn></mrow></math>",
    "<math><mrow><mi>A</mi><mo>&#x222A;</mo><mi>B</mi><mo>&#x2286;</mo><mi>C</mi><mo>&#x2229;</mo><mi mathvariant='double-struck'>R</mi></mrow></math>",
    "<math><mrow><mo>&#x2200;</mo><mi>x</mi><mo>&#x2208;</mo><mi>S</mi><mo>,</mo><mo>&#x2203;</mo><mi>y</mi><mo>:</mo><mi>x</mi><mo>&#x2264;</mo><mi>y</mi></mrow></math>",
    "<math><mrow><mover><mi>AB</mi><mo>&#xAF;</mo></mover><mo>&#x2225;</mo><mover><mi>CD</mi><mo>&#x2192;</mo></mover><mo>,</mo><mo>&#x2220;</mo><mi>ABC</mi><mo>=</mo><msup><mn>90</mn><mo>&#xB0;</mo></msup></mrow></math>",
    "<math><mrow><mi mathvariant='bold'>v</mi><mo>&#xD7;</mo><mi mathvariant='bold'>w</mi><mo>&#x22C5;</mo><mi mathvariant='script'>L</mi></mrow></math>",
    "<math><mrow><mi>&#x3B1;</mi><mo>+</mo><mi>&#x3B2;</mi><mo>=</mo><mi>&#x3C0;</mi><mo>&#xB1;</mo><mi>&#x221E;</mi></mrow></math>",
    "<math><mrow><mo>-</mo><mi>x</mi><mo>&#x2062;</mo><mi>y</mi><mo>&#xF7;</mo><mn>2</mn></mrow></math>",
    "<math><mrow intent='binomial($n,$k)'><mo>(</mo><mfrac linethickness='0'><mi arg='n'>n</mi><mi arg='k'>k</mi></mfrac><mo>)</mo></mrow></math>",
    "<math><mrow><mi>x</mi><mo>&#x2026;</mo><mi>y</mi><mo>&#x22EF;</mo><mi>z</mi></mrow></math>",
    "<math><mrow><mo>&#x230A;</mo><mi>x</mi><mo>&#x230B;</mo><mo>+</mo><mo>&#x2308;</mo><mi>y</mi><mo>&#x2309;</mo><mo>+</mo><mo>&#x2016;</mo><mi>v</mi><mo>&#x2016;</mo></mrow></math>",
    # numbers written with either decimal mark, small enough to look like 'common' fractions / ordinals to the rules (appended: indexes above are used elsewhere)
    "<math><mfrac><mn>1.5</mn><mn>2</mn></mfrac></math>",
    "<math><mfrac><mn>3</mn><mn>2.5</mn></mfrac></math>",
    "<math><mfrac><mn>0.5</mn><mn>10</mn></mfrac></math>",
    "<math><mfrac><mn>1.000</mn><mn>3</mn></mfrac></math>",
    "<math><mfrac><mn>1,5</mn><mn>2</mn></mfrac></math>",
    "<math><mfrac><mn>3</mn><mn>2,5</mn></mfrac></math>",
    "<math><mrow><mn>2</mn><mo>&#x2064;</mo><mfrac><mn>1.5</mn><mn>4</mn></mfrac></mrow></math>",
    "<math><mrow><mn>2</mn><mfrac><mn>1,5</mn><mn>4</mn></mfrac></mrow></math>",
    "<math><msup><mi>x</mi><mfrac><mn>1.5</mn><mn>2</mn></mfrac></msup></math>",
    "<math><mrow><msup><mi>x</mi><mn>2.5</mn></msup><mo>+</mo><msup><mi>y</mi><mn>2,5</mn></msup><mo>+</mo><mroot><mi>z</mi><mn>3.5</mn></mroot><mo>+</mo><msub><mi>a</mi><mn>1.5</mn></msub></mrow></math>",
    "<math><mrow><mn>1.5</mn><mo>&#xD7;</mo><mn>2,5</mn><mo>=</mo><mn>3.750</mn><mo>&#x2260;</mo><mn>1.234,5</mn></mrow></math>",
]


def element_kinds_in(trees):
    seen = set()
    for t in trees:
        for n, _ in t.walk():
            seen.add(n.tag)
    return seen


# ---------------------------------------------------------------------------------------------------------------------
# expressions of the repository's test files
# ---------------------------------------------------------------------------------------------------------------------
_STR_RX = re.compile(r'r#"(\s*<math.*?</math>\s*)"#|"(\s*<math(?:\\.|[^"\\])*?</math>\s*)"', re.S)
_NAMED = re.compile(r"&([A-Za-z][A-Za-z0-9]*);")
_XML_NAMED = {"lt", "gt", "amp", "quot", "apos"}


def _unrust(s):
    s = re.sub(r"\\\n\s*", "", s)          # line continuation
    return s.replace('\\"', '"').replace("\\n", "\n").replace("\\t", "\t").replace("\\\\", "\\")


def _named_entities(s):
    def rep(m):
        name = m.group(1)
        if name in _XML_NAMED:
            return m.group(0)
        v = html.entities.html5.get(name + ";")
        return v if v is not None else m.group(0)
    return _NAMED.sub(rep, s)


def harvest(repo=None, limit=None):
    """distinct <math>…</math> literals of tests/**/*.rs that Python's XML parser accepts, as gen.N trees (sorted by source for determinism)"""
    repo = repo or core.REPO
    base = os.path.join(repo, "tests")
    out, seen = [], set()
    if not os.path.isdir(base):
        return out
    files = []
    for root, _, names in os.walk(base):
        for n in names:
            if n.endswith(".rs"):
                files.append(os.path.join(root, n))
    for path in sorted(files):
        try:
            src = open(path, encoding="utf-8").read()
        except (OSError, UnicodeDecodeError):
            continue
        for m in _STR_RX.finditer(src):
            raw = m.group(1) if m.group(1) is not None else _unrust(m.group(2))
            xml = _named_entities(raw.strip())
            key = re.sub(r"\s+", " ", xml)
            if key in seen or len(xml) > 6000:
                continue
            seen.add(key)
            try:
                ET.fromstring(xml)
                tree = gen.from_xml(xml)
            except Exception:
                continue
            if tree.tag != "math":
                continue
            _trim(tree)
            out.append(tree)
            if limit and len(out) >= limit:
                return out
    return out


def _trim(n):
    """token text as MathCAT will see it after trimming (tests indent their MathML)"""
    if n.kids is None:
        n.text = (n.text or "").strip() if n.tag != "mtext" else (n.text or "")
    else:
        for k in n.kids:
            _trim(k)


def fixed_trees():
    return [gen.from_xml(x) for x in FIXED]


def visible_text(tree):
    """crude visibility: any non-blank character in a token outside mphantom / annotation"""
    def walk(n):
        if n.tag in ("mphantom", "annotation", "annotation-xml", "mspace"):
            return ""
        if n.kids is None:
            return n.text or ""
        return "".join(walk(k) for k in n.kids)
    return "".join(c for c in walk(tree) if not c.isspace() and c not in "\u2061\u2062\u2063\u2064\u200b\u2060\ufeff")
