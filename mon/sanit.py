"""Which instrumented builds re-run a property's workload (DESIGN.md section 4)."""
import os

PLAN = {
    # property: {tier: [flavours]}
    "C18": {"quick": ["asan"], "thorough": ["asan", "dev"]},
    "C08": {"quick": ["dev", "asan"], "thorough": ["dev", "asan"]},
}


def plan(prop, tier):
    if os.environ.get("VERIF_NO_SANITIZERS") == "1":
        return []
    return PLAN.get(prop, {}).get(tier, [])
