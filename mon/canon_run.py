"""Shared runner for the checks that judge the return value of set_mathml on generated inputs (C01, C02, C09).
A property module supplies  judge(tree, result_xml, root, ctx) -> [(kind, precluster_key, detail)]  and the runner does generation,
execution through the driver, pre-clustering, shrinking and structural signatures."""
import importlib
import random
import re
import time
import xml.etree.ElementTree as ET

from . import canon, core, gen, gen_degen, shrink

# separator / language settings under which canonicalization runs (number folding depends on them)
SETTINGS = [
    {"Language": "en"},
    {"Language": "en", "DecimalSeparator": ","},
    {"Language": "sv"},
    {"Language": "fi"},
    {"Language": "de"},
    {"Language": "en", "DecimalSeparator": "."},
    {"Language": "es"},
    {"Language": "zh-tw"},
]


def prefs_for(setting):
    p = {"TTS": "None"}
    p.update(setting)
    return p


def is_empty_like(n):
    if n.tag in ("math",):
        return False
    return canon.norm(canon.flat_in(n)) == "" and not any(k.tag in ("mtable", "mtr", "mtd", "mlabeledtr", "mprescripts", "mfenced") for k, _ in n.walk())


def canon_shape(n, depth=0):
    """abstract shape used in signatures"""
    if n.tag != "math" and is_empty_like(n):
        # after abstract_leaves() an empty-like subtree that is still not a plain <mrow/> could not be abstracted: keep its kind
        if n.tag == "mrow" and not n.kids:
            return "EMPTY"
        return "EMPTY:" + (n.tag if not n.kids else n.tag + "(" + ",".join(k.tag for k in n.kids) + ")") + ("" if n.kids is not None or not (n.text or "") else ":sp")
    if n.kids is None:
        t = n.text or ""
        if n.tag == "mn":
            return "NUM" if re.fullmatch(r"\d+", t) else "mn:" + re.sub(r"\d", "D", t)
        if n.tag == "mi":
            return "ID" if len(t) == 1 else "WORD:" + t
        if n.tag == "mo":
            return "mo:" + t
        if n.tag == "mtext":
            return "TEXT" if re.fullmatch(r"[a-z ]+", t) else "mtext:" + t
        return n.tag
    keep = [k for k in sorted(n.attrs) if k in ("open", "close", "separators", "notation", "intent", "mathvariant", "encoding")]
    a = "[" + ",".join("%s=%s" % (k, n.attrs[k]) for k in keep) + "]" if keep else ""
    if depth > 8:
        return n.tag + "(…)"
    return n.tag + a + "(" + ",".join(canon_shape(k, depth + 1) for k in n.kids) + ")"


def abstract_leaves(tree, still_fails):
    """replace every empty-like subtree by <mrow/> and every integer by 2 when the witness still fails (so that one cause gets one shape)"""
    best = tree
    for node, path in sorted(best.walk(), key=lambda np: len(np[1])):
        if not path:
            continue
        cur = best
        try:
            for i in path:
                cur = cur.kids[i]
        except (IndexError, TypeError):
            continue
        if cur.tag in shrink.STRUCTURAL:
            continue
        if is_empty_like(cur) and not (cur.tag == "mrow" and not cur.kids and not cur.attrs):
            cand = shrink._replace_at(best, path, gen.mrow())
            if still_fails(cand):
                best = cand
        elif cur.kids is None and cur.tag == "mn" and re.fullmatch(r"\d+", cur.text or "") and cur.text != "2":
            cand = shrink._replace_at(best, path, gen.mn("2"))
            if still_fails(cand):
                best = cand
    return best


def run_inputs(sess, trees, st, judge, ctx, batch=40):
    """run set_mathml over trees; yields (tree, result, problems) for judged Ok results"""
    out = []
    for i in range(0, len(trees), batch):
        chunk = trees[i:i + batch]
        res = sess.batch([("set_mathml", t.xml()) for t in chunk], timeout=60)
        if res is None:
            # the driver died or hung somewhere in the chunk: redo one by one so that the culprit is only counted (C08's business)
            res = []
            for t in chunk:
                r = sess.call("set_mathml", t.xml(), timeout=30)
                if r is None:
                    st.inconclusive += 1
                    st.count("set_mathml_killed_driver")
                    st.notes.append("set_mathml killed or hung the driver (%s): %s" % (type(getattr(sess, "last_failure", None)).__name__, t.xml()[:700]))
                    r = {"r": "died"}
                res.append(r)
        for t, r in zip(chunk, res):
            st.evaluations += 1
            if r["r"] != "ok":
                st.count("set_mathml_" + r["r"] + "_not_judged")
                continue
            try:
                root = ET.fromstring(r["v"])
            except ET.ParseError as e:
                root = None
                ctx["parse_error"] = str(e)
            out.append((t, r, judge(t, r["v"], root, ctx)))
    return out


def minimise(sess, tree, kind, judge, ctx, budget=900):
    def still_fails(t):
        r = sess.call("set_mathml", t.xml(), timeout=30)
        if r is None or r["r"] != "ok":
            return False
        try:
            root = ET.fromstring(r["v"])
        except ET.ParseError:
            root = None
        return any(p[0] == kind for p in judge(t, r["v"], root, ctx))
    small = shrink.shrink_tree(tree, still_fails, budget=budget, leaf_factory=lambda: [gen.mi("x"), gen.mn("2")])
    small = abstract_leaves(small, still_fails)
    return small


def shard(spec):
    mod = importlib.import_module("mon." + spec["prop"].lower())
    st = core.Stats()
    rng = random.Random(spec["seed"])
    deadline = time.time() + spec["time_budget"]
    seen_pre = set()
    ctx = {}
    for setting in spec["settings"]:
        sess = core.Session(prefs_for(setting))
        try:
            trees = list(spec.get("fixed_xml") and [gen.from_xml(x) for x in spec["fixed_xml"]] or [])
            for _ in range(spec["n_random"]):
                g = gen_degen.Degenerate(rng, max_depth=rng.choice([2, 3, 4, 5]), id_policy=rng.choice(spec["id_policies"]),
                                         p_empty=rng.choice([0.05, 0.12, 0.25]), size_cap=rng.choice([12, 30, 70]))
                trees.append(g.expression())
            if spec.get("textbook"):
                for _ in range(spec["textbook"]):
                    tb = gen.Textbook(rng, decimal=".", max_depth=rng.choice([2, 3, 4]), p_ident=0.5)
                    trees.append(tb.expression()[0])
            st.add("settings", ",".join("%s=%s" % kv for kv in sorted(setting.items())))
            for off in range(0, len(trees), 400):
                if time.time() > deadline:
                    st.count("stopped_by_time_budget")
                    break
                for tree, r, problems in run_inputs(sess, trees[off:off + 400], st, mod.judge, ctx):
                    mod.observe(tree, r, st)
                    for kind, pre, detail in problems:
                        st.count("raw_" + kind)
                        if (kind, pre) in seen_pre:
                            continue
                        seen_pre.add((kind, pre))
                        small = minimise(sess, tree, kind, mod.judge, ctx)
                        r2 = sess.call("set_mathml", small.xml(), timeout=30)
                        detail2 = detail
                        if r2 is not None and r2["r"] == "ok":
                            try:
                                root2 = ET.fromstring(r2["v"])
                            except ET.ParseError:
                                root2 = None
                            for k2, _, d2 in mod.judge(small, r2["v"], root2, ctx):
                                if k2 == kind:
                                    detail2 = d2
                                    break
                        sig = mod.signature(kind, small, detail2)
                        st.violations.append(core.violation(kind, sig, {"setting": setting, "mathml": small.xml()},
                                                            "minimal witness %s | %s | returned: %s" % (small.xml(), detail2[:400], (r2 or {}).get("v", "")[:600] if r2 else "")))
        finally:
            sess.close()
    return st.to_dict()


def replay(prop, witness):
    mod = importlib.import_module("mon." + prop.lower())
    tree = gen.from_xml(witness["mathml"])
    out = []
    with core.Session(prefs_for(witness.get("setting", {"Language": "en"}))) as sess:
        r = sess.call("set_mathml", witness["mathml"], timeout=30)
        if r is None or r["r"] != "ok":
            return []
        try:
            root = ET.fromstring(r["v"])
        except ET.ParseError:
            root = None
        for kind, _, detail in mod.judge(tree, r["v"], root, {}):
            out.append(core.violation(kind, mod.signature(kind, tree, detail), witness, detail[:600]))
    return out


def make_specs(prop, tier, seed, n_quick, n_thorough, id_policies, textbook_frac=0.15, budget_quick=70, budget_thorough=1500):
    rng = random.Random(core.sub_seed(seed, prop, "sys"))
    systematic = [t.xml() for t in gen_degen.systematic(rng)]
    nsh = core.NPROC
    total = n_quick if tier == "quick" else n_thorough
    per = max(1, total // nsh)
    specs = []
    for i in range(nsh):
        settings = [SETTINGS[(i + j) % len(SETTINGS)] for j in range(2 if tier == "quick" else 4)]
        n_each = per // len(settings)
        specs.append({"prop": prop, "seed": core.sub_seed(seed, prop, i), "settings": settings, "n_random": int(n_each * (1 - textbook_frac)),
                      "textbook": int(n_each * textbook_frac), "id_policies": id_policies,
                      "fixed_xml": systematic[i::nsh], "time_budget": budget_quick if tier == "quick" else budget_thorough})
    return specs
