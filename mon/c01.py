"""C01 — canonicalization never loses or invents visible content.
Oracle: the visible characters of the returned MathML, read in visual order, equal those of the input modulo the documented
normalisations (canon.norm / canon.flat_in / canon.flat_out, written from the MathML spec and the property statement)."""
import time

from . import canon, canon_run, core

PROP = "C01"


def judge(tree, xml, root, ctx):
    if root is None:
        return []          # not well-formed: C02's business
    d = canon.content_diff(tree, root)
    if d is None:
        return []
    kind, lost, invented, want, got = d
    pre = "%s|%s|%s" % (kind, "".join(sorted(set("".join(lost))))[:6], "".join(sorted(set("".join(invented))))[:6])
    return [(kind, pre, "%s: lost %r invented %r | input text %r | output text %r" % (kind, lost[:4], invented[:4], want[:120], got[:120]))]


def observe(tree, r, st):
    shape = tree.shape()
    st.nontrivial.add(core.h16(shape))
    for n, _ in tree.walk():
        st.add("input_elements", n.tag)
    if len(st.samples) < 2:
        st.sample({"input": tree.xml()[:500], "returned": r["v"][:700]})


def signature(kind, small, detail):
    return "%s | %s" % (kind, canon_run.canon_shape(small))


def replay(witness):
    return canon_run.replay(PROP, witness)


def run(tier, seed):
    t0 = time.time()
    core.build_driver("native")
    specs = canon_run.make_specs(PROP, tier, seed, n_quick=48000, n_thorough=1500000, id_policies=["none", "none", "some"])
    results = core.run_shards(canon_run.shard, specs)
    stats, errors = core.Stats.merge(results)
    known, fixed_failures, extra_v = core.replay_findings(PROP, replay)
    stats.violations.extend(extra_v)
    return core.conclude(
        PROP, tier, seed, "exploration", stats, {},
        ["visible text is compared after the documented normalisations only (minus/dash/accent families, primes, dots, bars, ratio, mathvariant folding via NFKD, "
         "white space and invisible operators removed); mfenced gaps beyond the given separators may use ',' or repeat the last separator",
         "set_mathml errors and panics on degenerate input are C08's business and only counted here"],
        t0,
        rule="systematic table (every fixed-arity/inferred-row parent x every empty-like child kind x position, alone and with neighbours) + random degenerate "
             "MathML (empty tokens, empty rows/none in script positions, wrappers, mfenced attribute shapes, embedded HTML/mglyph, dictionary operators) + textbook "
             "expressions, under several language/decimal-separator settings; non-trivial = set_mathml returned Ok and the content oracle was applied; distinct by element skeleton",
        min_nontrivial=500, harness_errors=errors, known_replayed=known, fixed_failures=fixed_failures)
