"""Oracles over the canonical MathML returned by set_mathml (C01 content, C02 structure, C09 ids).
Everything here is written from the MathML specification and the property statements; it shares no code with MathCAT.
Input trees are gen.N objects (what we sent), outputs are parsed with Python's XML parser."""
import difflib
import unicodedata
import xml.etree.ElementTree as ET

from . import mml

TOKEN_TAGS = ("mi", "mn", "mo", "mtext", "ms")
INVISIBLE = set("\u2061\u2062\u2063\u2064")

# ---------------------------------------------------------------------------------------------
# C01: visible text of input and output
# ---------------------------------------------------------------------------------------------
# character classes unified on BOTH sides (symmetric, so they can only lose sensitivity, never raise a false alarm);
# they encode the documented normalisations: minus sign, dashes, accent families in under/over positions, ring -> degree in superscripts,
# ratio, double bar, WIRIS angle brackets of mfenced
_CLASSES = [
    ("-", "_\u02c9\u0304\u0305\u0332\u2212-\u2010\u2011\u2012\u2013\u2014\u2015\u203e\u00af"),
    ("~", "\u02dc\u223c~\u0303"),
    ("^", "\u02c6\u0302^"),
    ("\u02d9", "\u0307\u02d9"),
    ("\u00a8", "\u0308\u00a8"),
    ("\u00b0", "\u00ba\u2092\u20d8\u2218\u00b0"),
    ("`", "\u02bc`"),
    ("<", "<\u27e8\u2329\u3008"),
    (">", ">\u27e9\u232a\u3009"),
    (":", ":\u2236"),
    ("'", "'\u2032"),
]
_CMAP = {}
for rep, members in _CLASSES:
    for ch in members:
        _CMAP[ch] = rep
_SMAP = {"\u2016": "||", "\u01c1": "||", "\u2237": "::", "\u2026": "...", "\u2033": "''", "\u2034": "'''", "\u2057": "''''"}


def norm(s):
    out = []
    for ch in s:
        if ch in _SMAP:
            out.append(_SMAP[ch])
            continue
        if ch in _CMAP:
            out.append(_CMAP[ch])
            continue
        for d in unicodedata.normalize("NFKD", ch):
            if d in INVISIBLE or d.isspace() or d in "\u200b\u200c\u200d\u2060\ufeff":
                continue
            out.append(_SMAP.get(d) or _CMAP.get(d, d))
    s = "".join(out)
    while "----" in s:
        s = s.replace("----", "---")
    return s


def _dash_token(tag, text):
    """documented token-level dash normalisation: an mi/mtext that is exactly a run of 2-4 hyphens becomes a dash character"""
    if tag in ("mi", "mtext"):
        t = text.strip()
        if t == "--":
            return "—"
        if t in ("---", "----"):
            return "―"
    return text


def _fenced_parts(n, variant):
    """open, [separators between children], close of an mfenced element.  variant: 'repeat' (MathML: reuse the last separator) or
    'comma' (use ',' when the list is exhausted)"""
    op = n.attrs.get("open", "(")
    cl = n.attrs.get("close", ")")
    seps = [c for c in n.attrs.get("separators", ",") if not c.isspace()]
    gaps = max(0, len(n.kids) - 1)
    out = []
    for i in range(gaps):
        if "separators" in n.attrs and not seps:
            out.append("")
        elif i < len(seps):
            out.append(seps[i])
        else:
            out.append(seps[-1] if variant == "repeat" and seps else ",")
    return op, out, cl


def flat_in(n, variant="repeat"):
    """visible characters of an input tree in visual order"""
    t = n.tag
    if t in TOKEN_TAGS:
        return _dash_token(t, n.text or "")
    if t in ("mphantom", "mspace", "none", "mprescripts", "malignmark", "maligngroup", "annotation", "annotation-xml", "mglyph"):
        return ""
    kids = n.kids or []
    if t == "semantics":
        return flat_in(kids[0], variant) if kids else ""
    if t == "mfenced":
        op, seps, cl = _fenced_parts(n, variant)
        parts = [op]
        for i, k in enumerate(kids):
            if i:
                parts.append(seps[i - 1])
            parts.append(flat_in(k, variant))
        parts.append(cl)
        return "".join(parts)
    if t == "mmultiscripts":
        idx = next((i for i, k in enumerate(kids) if k.tag == "mprescripts"), None)
        if idx is None:
            return "".join(flat_in(k, variant) for k in kids)
        base, post, pre = kids[:1], kids[1:idx], kids[idx + 1:]
        return "".join(flat_in(k, variant) for k in pre + base + post)
    return "".join(flat_in(k, variant) for k in kids)


def flat_out(e):
    """visible characters of a returned tree in visual order"""
    t = mml.local(e.tag)
    if t in TOKEN_TAGS:
        return "".join(e.itertext())
    if t in ("mphantom", "mspace", "none", "mprescripts", "malignmark", "maligngroup", "annotation", "annotation-xml"):
        return ""
    kids = list(e)
    if t == "semantics":
        return flat_out(kids[0]) if kids else ""
    if t == "mmultiscripts":
        idx = next((i for i, k in enumerate(kids) if mml.local(k.tag) == "mprescripts"), None)
        if idx is not None:
            kids = kids[idx + 1:] + kids[:1] + kids[1:idx]
    return "".join(flat_out(k) for k in kids)


def content_diff(tree, out_root):
    """None when the visible content agrees, else (kind, lost, invented, want, got)"""
    got = norm(flat_out(out_root))
    wants = []
    for variant in ("repeat", "comma"):
        want = norm(flat_in(tree, variant))
        if want == got:
            return None
        wants.append(want)
    want = wants[0] if _distance(wants[0], got) <= _distance(wants[1], got) else wants[1]
    lost, invented = [], []
    sm = difflib.SequenceMatcher(None, want, got, autojunk=False)
    for op, i1, i2, j1, j2 in sm.get_opcodes():
        if op in ("delete", "replace"):
            lost.append(want[i1:i2])
        if op in ("insert", "replace"):
            invented.append(got[j1:j2])
    if sorted(want) == sorted(got):
        kind = "reordered"
    elif lost and not invented:
        kind = "lost"
    elif invented and not lost:
        kind = "invented"
    else:
        kind = "changed"
    return kind, lost, invented, want, got


def _distance(a, b):
    return 1.0 - difflib.SequenceMatcher(None, a, b, autojunk=False).ratio()


# ---------------------------------------------------------------------------------------------
# C02: structure of the returned MathML
# ---------------------------------------------------------------------------------------------
ARITY = {"mfrac": 2, "mroot": 2, "msub": 2, "msup": 2, "munder": 2, "mover": 2, "msubsup": 3, "munderover": 3,
         "msqrt": 1, "menclose": 1, "mtd": 1, "merror": 1}
REMOVED = ("mfenced", "mstyle", "mpadded", "mphantom", "mspace", "semantics", "annotation", "annotation-xml")
LEAVES = ("mi", "mn", "mo", "mtext", "ms", "mglyph", "none", "mprescripts", "mspace", "malignmark", "maligngroup")


def structure_problems(root):
    """list of (code, element name, detail) for a parsed return value of set_mathml"""
    out = []
    if mml.local(root.tag) != "math":
        out.append(("root-not-math", mml.local(root.tag), ""))
        return out
    if len(list(root)) != 1:
        out.append(("math-arity", "math", "math has %d children" % len(list(root))))
    for e in root.iter():
        t = mml.local(e.tag)
        kids = list(e)
        if t in ARITY and len(kids) != ARITY[t]:
            out.append(("arity", t, "%s has %d children, needs %d" % (t, len(kids), ARITY[t])))
        if t == "mmultiscripts":
            names = [mml.local(k.tag) for k in kids]
            npre = names.count("mprescripts")
            ok = True
            if not kids or npre > 1 or names[0] == "mprescripts":
                ok = False
            elif npre == 0:
                ok = (len(kids) - 1) % 2 == 0
            else:
                i = names.index("mprescripts")
                ok = (i - 1) % 2 == 0 and (len(kids) - i - 1) % 2 == 0
            if not ok:
                out.append(("arity", t, "mmultiscripts children: %s" % ",".join(names)))
        if t in TOKEN_TAGS:
            if kids:
                out.append(("token-has-elements", t, ""))
            elif (e.text or "") == "":
                out.append(("empty-token", t, ""))
        if t == "mrow" and len(kids) < 2 and e.get("intent") is None:
            out.append(("short-mrow", "mrow", "mrow with %d children and no intent" % len(kids)))
        if t in REMOVED:
            out.append(("wrapper-left", t, ""))
        if t not in LEAVES and (e.text or "").strip():
            out.append(("text-in-container", t, repr((e.text or "").strip()[:30])))
    return out


def same_tree(a, b):
    """structural equality of two ElementTree elements (tags, attributes, text of leaves, children)"""
    if a.tag != b.tag or dict(a.attrib) != dict(b.attrib) or len(list(a)) != len(list(b)):
        return False
    if not list(a) and (a.text or "") != (b.text or ""):
        return False
    return all(same_tree(x, y) for x, y in zip(list(a), list(b)))


def reserialise(e):
    return ET.tostring(e, encoding="unicode")


# ---------------------------------------------------------------------------------------------
# C09: ids
# ---------------------------------------------------------------------------------------------
def id_problems(tree, root):
    """tree: input N (author ids in attrs); root: parsed output.  returns list of (code, detail)"""
    out = []
    elems = list(root.iter())
    ids = [e.get("id") for e in elems]
    missing = [mml.local(e.tag) for e in elems if e.get("id") is None]
    if missing:
        out.append(("no-id", "elements without id: %s" % ",".join(sorted(set(missing)))))
    author = [n.attrs["id"] for n, _ in tree.walk() if "id" in n.attrs]
    author_unique = len(set(author)) == len(author)
    added = [e.get("id") for e in elems if e.get("data-id-added") is not None and e.get("id") is not None]
    not_added = [e.get("id") for e in elems if e.get("data-id-added") is None and e.get("id") is not None]
    if len(set(added)) != len(added):
        out.append(("dup-added-id", "library-added ids repeat"))
    if set(added) & set(author):
        out.append(("added-id-collides", "a library-added id equals an author id"))
    present = [i for i in ids if i is not None]
    if author_unique and len(set(present)) != len(present):
        dup = sorted(set(i for i in present if present.count(i) > 1))
        where = sorted(set(mml.local(e.tag) for e in elems if e.get("id") in dup))
        out.append(("dup-id", "ids %s occur more than once (on %s) although the author's ids were distinct" % (dup[:3], ",".join(where))))
    unknown = [i for i in not_added if i not in author]
    if unknown:
        out.append(("foreign-id", "ids not from the author and not marked data-id-added: %s" % unknown[:3]))
    # an author id on a token stays on an element carrying that token's text
    by_id = {}
    for e in elems:
        if e.get("id") is not None:
            by_id.setdefault(e.get("id"), []).append(e)
    if author_unique:
        for n, _ in tree.walk():
            i = n.attrs.get("id")
            if i is None or i not in by_id:
                continue
            e = by_id[i][0]
            if n.tag in TOKEN_TAGS:
                want = norm(_dash_token(n.tag, n.text or ""))
                got = norm(flat_out(e))
                if want and want not in got:
                    out.append(("id-on-wrong-text", "author id on <%s>%s</%s> ended up on <%s> with text %r" % (n.tag, (n.text or "")[:20], n.tag, mml.local(e.tag), got[:40])))
        # ... and it STAYS: a token that comes back as a leaf of its own (same element kind, exactly its text, and no other token of the input
        # has that text) still carries the author's id.  Tokens that were merged, split or deleted are not judged.
        in_texts = {}
        dropped = set()         # tokens inside content that is removed by design (mphantom, annotations): their text coming back is a coincidence

        def mark(n, inside):
            inside = inside or n.tag in ("mphantom", "annotation", "annotation-xml", "maction")    # the first child of semantics is the presentation and stays
            if n.kids is None:
                if inside:
                    dropped.add(id(n))
            else:
                for k in n.kids:
                    mark(k, inside)
        mark(tree, False)
        for n, _ in tree.walk():
            if n.kids is None and n.tag in TOKEN_TAGS:
                in_texts.setdefault((n.text or "").strip(), []).append(None if id(n) in dropped else n)
        for n, _ in tree.walk():
            if n.tag == "mfenced":      # the fence and separator characters of mfenced become tokens of their own
                for ch in [n.attrs.get("open", "("), n.attrs.get("close", ")")] + list(n.attrs.get("separators", ",")):
                    in_texts.setdefault(ch.strip(), []).append(None)
        out_leaves = {}
        for e in elems:
            if len(e) == 0 and mml.local(e.tag) in TOKEN_TAGS:
                out_leaves.setdefault((e.text or "").strip(), []).append(e)
        for text, ns in in_texts.items():
            if len(ns) != 1 or ns[0] is None or not text or len(text) > 12 or not (text.isalnum() or (len(text) >= 3 and text[0] in "([{" and text[-1] in ")]}" and text[1:-1].isalnum())):
                continue        # (primes, dots, dashes ... are merged into other characters that can coincide with another token: letters and digits
                                #  only, plus bracketed words such as the state symbols '(g)', '(aq)' that are split into a row)
            n = ns[0]
            i = n.attrs.get("id")
            if i is None or i in by_id:
                continue
            if any(o != text and o and (o in text or text in o) for o in in_texts):
                continue        # a piece of another token that is split, or the result of merging other tokens, could be this very text
            cands = out_leaves.get(text, [])
            if not cands and len(text) >= 3 and not text.isalnum():
                # a token that was SPLIT into a row of its pieces ('(g)' -> ( g )): the row whose leaves spell exactly the token stands for it
                rows = [e for e in elems if len(e) >= 2 and all(len(k) == 0 and k.get("data-changed") != "added" for k in e) and "".join((k.text or "") for k in e) == text]
                if len(rows) == 1:
                    out.append(("author-id-lost", "author id %r of <%s>%s</%s> is gone although the token came back split into the row %s (now id %r)" % (
                        i, n.tag, text[:20], n.tag, "".join("<%s>" % mml.local(k.tag) for k in rows[0]), rows[0].get("id"))))
                continue
            if len(cands) == 1 and mml.local(cands[0].tag) == n.tag:
                if cands[0].get("data-changed") in ("added", "from_mfenced") or cands[0].get("data-added") is not None or text in "\u2061\u2062\u2063\u2064":
                    continue        # a token the library created (implied operator, fence of an mfenced, placeholder): not the author's token
                out.append(("author-id-lost", "author id %r of <%s>%s</%s> is gone although the token came back as a leaf of its own (now id %r%s)" % (
                    i, n.tag, text[:20], n.tag, cands[0].get("id"), ", an author id of another element" if cands[0].get("id") in author else "")))
        # the same for 2-D elements: the only element of its kind in the input, the only one of that kind in the output
        two_d = ("mfrac", "msqrt", "mroot", "msub", "msup", "msubsup", "munder", "mover", "munderover", "mtable", "menclose")
        in_2d, out_2d = {}, {}

        def collect(n, inside):
            inside = inside or n.tag in ("mphantom", "annotation", "annotation-xml", "maction")    # the first child of semantics is the presentation and stays
            if n.tag in two_d:
                in_2d.setdefault(n.tag, []).append(None if inside else n)
            for k in (n.kids or []):
                collect(k, inside)
        collect(tree, False)
        for e in elems:
            if mml.local(e.tag) in two_d:
                out_2d.setdefault(mml.local(e.tag), []).append(e)
        converts = {"msub": ("msubsup", "mmultiscripts"), "msup": ("msubsup", "mmultiscripts"), "munder": ("munderover",), "mover": ("munderover",), "msqrt": ("mroot",)}
        all_in_tags = set(n.tag for n, _ in tree.walk())
        for tag, ns in in_2d.items():
            if len(ns) != 1 or ns[0] is None or len(out_2d.get(tag, [])) != 1:
                continue
            if any(t in all_in_tags for t in converts.get(tag, ())):
                continue        # an element of this kind can also be what is left of a richer one
            i = ns[0].attrs.get("id")
            e = out_2d[tag][0]
            if i is None or i in by_id or e.get("data-changed") is not None:
                continue
            if norm(flat_in(ns[0])) and norm(flat_in(ns[0])) == norm(flat_out(e)):
                out.append(("author-id-lost-2d", "author id %r of the only <%s> is gone although the only <%s> of the result has the same content (now id %r)" % (i, tag, tag, e.get("id"))))
    return out


def has_unparsed_table_cell(root):
    """known-finding helper (C03/C04): a table cell whose row came back unparsed — two operands side by side without an operator between
    them — which happens when the chemistry heuristics un-mark a cell (capital letters that are element symbols) and the cell is not parsed again"""
    for td in root.iter():
        if mml.local(td.tag) != "mtd":
            continue
        for row in td.iter():
            if mml.local(row.tag) != "mrow":
                continue
            kids = list(row)
            for a, b in zip(kids, kids[1:]):
                ta, tb = mml.local(a.tag), mml.local(b.tag)
                if ta not in ("mo", "mtext") and tb not in ("mo", "mtext"):
                    return True
            # a fenced row whose contents are not grouped into one child: ( x , 5 ) with five children
            if len(kids) > 3 and mml.local(kids[0].tag) == "mo" and mml.local(kids[-1].tag) == "mo" and \
                    (kids[0].text or "") in "([{" and (kids[-1].text or "") in ")]}" and (kids[0].text or "") != "":
                return True
    return False
