"""C13 oracle: tag-soup validators for the two speech-engine markups MathCAT can produce (SSML, SAPI5 XML TTS).
Own tokenizer, own vocabulary/value tables written from the engines' published definitions (W3C SSML 1.0/1.1, Microsoft SAPI 5
"XML TTS" schema); shares no code with MathCAT.  Python's XML parser is used as a second opinion only.

The validator is tolerant ("tag soup"): it recovers after each error so that one defect does not hide another one, and every
problem is reported with a *class* (no literals) so that signatures are stable across seeds.

problem = (kind, where, cls, detail)
    kind   syntax | vocabulary | attr-value | nesting | xml
    where  tag or tag@attr
    cls    small closed vocabulary of classes, see the functions below
"""
import re
import xml.etree.ElementTree as ET

NAME_RX = re.compile(r"[A-Za-z_][A-Za-z0-9_.\-]*(?::[A-Za-z_][A-Za-z0-9_.\-]*)?")
WS = " \t\r\n"
NUM = r"(?:\d+(?:\.\d*)?|\.\d+)"          # what an XML-facing number may look like (no exponent, no inf/nan)
NONFINITE_RX = re.compile(r"^[+-]?(inf|infinity|nan)", re.I)
ENTITY_RX = re.compile(r"&(?:#[0-9]+|#x[0-9A-Fa-f]+|[A-Za-z_][A-Za-z0-9_.\-]*);")
PREDEF = {"&lt;": "<", "&gt;": ">", "&amp;": "&", "&quot;": '"', "&apos;": "'"}


# ------------------------------------------------------------------------------------------------------------
# value grammars.  Each returns None (acceptable) or a class string.  They accept the UNION of the readings of the
# engine definitions (SSML 1.0 and 1.1; sign optional; unit letters case-insensitive): the property asks for
# "syntactically valid attributes", not for a particular engine's taste.  Range remarks are returned as ("range", ...)
# and only counted.
# ------------------------------------------------------------------------------------------------------------
def _num_class(v):
    """class of something that should have been a number"""
    if v == "":
        return "empty"
    if NONFINITE_RX.match(v):
        return "non-finite"
    return "not-a-number"


def g_ssml_time(v):
    # SSML: time designation = non-negative number immediately followed by "ms" or "s"
    if re.fullmatch(r"\+?" + NUM + r"(ms|s)", v, re.I):
        return None
    if re.fullmatch(r"-" + NUM + r"(ms|s)", v, re.I):
        return "negative-time"
    if re.fullmatch(r"[+-]?" + NUM, v):
        return "missing-unit"
    m = re.fullmatch(r"(.*?)(ms|s)", v, re.I)
    return _num_class(m.group(1) if m else v)


def g_ssml_pitch(v):
    if v in ("x-low", "low", "medium", "high", "x-high", "default"):
        return None
    if re.fullmatch(r"[+-]?" + NUM + r"(hz|%|st)?", v, re.I):
        return None
    m = re.fullmatch(r"(.*?)(hz|%|st)", v, re.I)
    return _num_class(m.group(1) if m else v)


def g_ssml_rate(v):
    if v in ("x-slow", "slow", "medium", "fast", "x-fast", "default"):
        return None
    if re.fullmatch(r"[+-]?" + NUM + r"%?", v):
        return None
    m = re.fullmatch(r"(.*?)%", v)
    return _num_class(m.group(1) if m else v)


def g_ssml_volume(v):
    if v in ("silent", "x-soft", "soft", "medium", "loud", "x-loud", "default"):
        return None
    if re.fullmatch(r"[+-]?" + NUM + r"(db|%)?", v, re.I):
        return None
    m = re.fullmatch(r"(.*?)(db|%)", v, re.I)
    return _num_class(m.group(1) if m else v)


def g_enum(*values):
    def g(v):
        return None if v in values else "not-in-enumeration"
    return g


def g_nonempty(v):
    return None if v.strip() != "" else "empty"


def g_any(v):
    return None


def g_nmtoken(v):
    return None if re.fullmatch(r"[\w.\-:]+", v) else ("empty" if v == "" else "not-a-name-token")


def g_uri(v):
    if v == "":
        return "empty"
    return None if re.fullmatch(r"[^\s<>\"{}|\\^`]+", v) else "not-a-uri"


def g_ssml_voice_required(v):
    # SSML 1.1: space separated list of FEATURE NAMES (name, languages, gender, age, variant) — not values
    toks = v.split()
    if all(t in ("name", "languages", "gender", "age", "variant") for t in toks):
        return None
    return "not-a-feature-name-list"


def g_sapi_msec(v):
    # SAPI 5 XML TTS: <silence msec="500"/> — the count of milliseconds, an unsigned integer, no unit
    if re.fullmatch(r"\d+", v):
        return None
    if re.fullmatch(r"\d+\s*(ms|s|msec)", v, re.I):
        return "unit-suffix"
    if re.fullmatch(r"-\d+(\s*(ms|s|msec))?", v, re.I):
        return "negative-time"
    m = re.fullmatch(r"(.*?)(ms|s|msec)?", v, re.I)
    return _num_class(m.group(1) if m else v)


def g_sapi_level(v):
    # pitch middle/absmiddle, rate speed/absspeed: signed numbers (nominally integers -10..10; engines clip)
    if re.fullmatch(r"[+-]?" + NUM, v):
        return None
    return _num_class(v)


def g_sapi_volume(v):
    if re.fullmatch(r"\+?" + NUM, v) or re.fullmatch(r"-" + NUM, v):
        return None
    return _num_class(v)


def g_sapi_voice(v):
    # required="Gender=Female;Age!=Child" style attribute lists
    if re.fullmatch(r"\s*\w+\s*!?=\s*[^;=]+(\s*;\s*\w+\s*!?=\s*[^;=]+)*;?\s*", v):
        return None
    return "empty" if v.strip() == "" else "not-an-attribute-list"


def _range_remark(engine, tag, attr, v):
    """engine-documented ranges; deviations are counted, never reported"""
    try:
        if engine == "SAPI5" and tag in ("pitch", "rate") and attr in ("middle", "absmiddle", "speed", "absspeed"):
            x = float(v)
            if x != int(x):
                return "sapi5-%s-not-integer" % tag
            if not -10 <= x <= 10:
                return "sapi5-%s-outside-10" % tag
        if engine == "SAPI5" and tag == "volume":
            x = float(v)
            if not 0 <= x <= 100:
                return "sapi5-volume-outside-0-100"
        if engine == "SSML" and tag == "prosody" and attr == "pitch" and re.fullmatch(NUM + "%", v):
            return "ssml-pitch-percentage-without-sign"
        if engine == "SSML" and tag == "prosody" and attr == "volume" and v.endswith("db"):
            return "ssml-volume-db-lowercase"
        if engine == "SSML" and tag == "prosody" and attr == "rate" and v.startswith("-"):
            return "ssml-rate-negative"
    except ValueError:
        pass
    return None


# element -> {attr: (grammar, required)} ; "EMPTY" elements must have no content
SSML = {
    "break": ({"time": (g_ssml_time, False), "strength": (g_enum("none", "x-weak", "weak", "medium", "strong", "x-strong"), False)}, "EMPTY"),
    "mark": ({"name": (g_nonempty, True)}, "EMPTY"),
    "prosody": ({"pitch": (g_ssml_pitch, False), "contour": (g_nonempty, False), "range": (g_ssml_pitch, False), "rate": (g_ssml_rate, False),
                 "duration": (g_ssml_time, False), "volume": (g_ssml_volume, False)}, "MIXED"),
    "say-as": ({"interpret-as": (g_nmtoken, True), "format": (g_nonempty, False), "detail": (g_nonempty, False)}, "TEXT"),
    "phoneme": ({"ph": (g_any, True), "alphabet": (g_nmtoken, False), "type": (g_nmtoken, False)}, "TEXT"),
    "sub": ({"alias": (g_any, True)}, "TEXT"),
    "audio": ({"src": (g_uri, True), "fetchtimeout": (g_ssml_time, False), "fetchhint": (g_enum("prefetch", "safe"), False),
               "maxage": (g_nonempty, False), "maxstale": (g_nonempty, False), "clipBegin": (g_ssml_time, False), "clipEnd": (g_ssml_time, False),
               "repeatCount": (g_nonempty, False), "repeatDur": (g_ssml_time, False), "soundLevel": (g_ssml_volume, False),
               "speed": (g_ssml_rate, False)}, "MIXED"),
    "desc": ({"xml:lang": (g_nonempty, False)}, "TEXT"),
    "voice": ({"gender": (g_enum("male", "female", "neutral"), False), "age": (g_nonempty, False), "variant": (g_nonempty, False),
               "name": (g_nonempty, False), "languages": (g_any, False), "required": (g_ssml_voice_required, False),
               "ordering": (g_nonempty, False), "onvoicefailure": (g_nonempty, False), "xml:lang": (g_nonempty, False)}, "MIXED"),
    "emphasis": ({"level": (g_enum("strong", "moderate", "none", "reduced"), False)}, "MIXED"),
    "lang": ({"xml:lang": (g_nonempty, True), "onlangfailure": (g_nonempty, False)}, "MIXED"),
    "p": ({"xml:lang": (g_nonempty, False)}, "MIXED"),
    "s": ({"xml:lang": (g_nonempty, False)}, "MIXED"),
    "w": ({"role": (g_nonempty, False)}, "MIXED"),
    "token": ({"role": (g_nonempty, False)}, "MIXED"),
}
SAPI5 = {
    "silence": ({"msec": (g_sapi_msec, True)}, "EMPTY"),
    "bookmark": ({"mark": (g_any, True)}, "EMPTY"),
    "pitch": ({"middle": (g_sapi_level, False), "absmiddle": (g_sapi_level, False)}, "MIXED"),
    "rate": ({"speed": (g_sapi_level, False), "absspeed": (g_sapi_level, False)}, "MIXED"),
    "volume": ({"level": (g_sapi_volume, True)}, "MIXED"),
    "voice": ({"required": (g_sapi_voice, False), "optional": (g_sapi_voice, False)}, "MIXED"),
    "spell": ({}, "TEXT"),
    "pron": ({"sym": (g_any, True)}, "MIXED"),
    "emph": ({}, "MIXED"),
    "lang": ({"langid": (g_nonempty, True)}, "MIXED"),
    "partofsp": ({"part": (g_nonempty, True)}, "MIXED"),
    "context": ({"id": (g_nonempty, True)}, "MIXED"),
    "sapi": ({}, "MIXED"),
}
VOCAB = {"SSML": SSML, "SAPI5": SAPI5}
NEED_ONE_OF = {("SAPI5", "pitch"): ("middle", "absmiddle"), ("SAPI5", "rate"): ("speed", "absspeed"),
               ("SAPI5", "voice"): ("required", "optional")}
BOOKMARK_ATTR = {"SSML": ("mark", "name"), "SAPI5": ("bookmark", "mark")}
ANY_TTS_TAG = set(SSML) | set(SAPI5) | {"speak"}


class Tag:
    __slots__ = ("kind", "name", "attrs", "start", "end")

    def __init__(self, kind, name, attrs, start, end):
        self.kind = kind        # open | close | empty
        self.name = name
        self.attrs = attrs      # list of (name, value)
        self.start = start
        self.end = end


def _parse_tag(s, i, problems):
    """s[i] == '<'.  Returns (Tag, next index) or (None, i+1) when this '<' does not start a tag."""
    n = len(s)
    j = i + 1
    closing = False
    if j < n and s[j] == "/":
        closing = True
        j += 1
    m = NAME_RX.match(s, j)
    if not m:
        return None, i + 1
    name = m.group(0)
    j = m.end()
    attrs = []
    where = name
    first = True
    while True:
        k = j
        while k < n and s[k] in WS:
            k += 1
        if k >= n:
            return None, i + 1                                   # no '>' at all: not a tag
        if s[k] == ">":
            return Tag("close" if closing else "open", name, attrs, i, k + 1), k + 1
        if s.startswith("/>", k):
            if closing:
                problems.append(("syntax", where, "slash-in-end-tag", s[i:k + 2]))
            return Tag("empty", name, attrs, i, k + 2), k + 2
        if s[k] == "<":
            return None, i + 1                                   # another '<' before '>': the first one was text
        had_space = k > j
        am = NAME_RX.match(s, k)
        if not am:
            end = s.find(">", k)
            if end < 0 or "<" in s[k:end]:
                return None, i + 1
            problems.append(("syntax", where, "junk-in-tag", s[i:end + 1]))
            kind = "close" if closing else ("empty" if s[end - 1] == "/" else "open")
            return Tag(kind, name, attrs, i, end + 1), end + 1
        if closing:
            problems.append(("syntax", where, "attribute-in-end-tag", s[i:am.end()]))
        if not had_space and not first:
            problems.append(("syntax", where, "no-space-between-attributes", s[i:am.end()]))
        elif not had_space and first:
            pass      # cannot happen: NAME_RX is greedy
        first = False
        aname = am.group(0)
        k = am.end()
        while k < n and s[k] in WS:
            k += 1
        if k >= n or s[k] != "=":
            end = s.find(">", k)
            if end < 0 or "<" in s[k:end]:
                return None, i + 1
            problems.append(("syntax", "%s@*" % name, "attribute-without-value", s[i:end + 1]))
            kind = "close" if closing else ("empty" if s[end - 1] == "/" else "open")
            return Tag(kind, name, attrs, i, end + 1), end + 1
        k += 1
        extra = 0
        while k < n and (s[k] == "=" or s[k] in WS):
            if s[k] == "=":
                extra += 1
            k += 1
        if extra:
            problems.append(("syntax", "%s@%s" % (name, aname), "doubled-equals-sign", s[i:min(n, k + 12)]))
        if k < n and s[k] in "'\"":
            q = s[k]
            e = s.find(q, k + 1)
            if e < 0:
                return None, i + 1
            value = s[k + 1:e]
            if "<" in value:
                problems.append(("syntax", "%s@%s" % (name, aname), "lt-in-attribute-value", s[i:e + 1]))
            for am2 in re.finditer("&", value):
                if not ENTITY_RX.match(value, am2.start()):
                    problems.append(("syntax", "%s@%s" % (name, aname), "bare-ampersand-in-attribute-value", s[i:e + 1]))
                    break
            if any(a == aname for a, _ in attrs):
                problems.append(("syntax", "%s@%s" % (name, aname), "duplicate-attribute", s[i:e + 1]))
            attrs.append((aname, value))
            j = e + 1
        else:
            m2 = re.compile(r"[^\s<>/]*").match(s, k)
            problems.append(("syntax", "%s@%s" % (name, aname), "unquoted-attribute-value", s[i:m2.end()]))
            attrs.append((aname, m2.group(0)))
            j = m2.end()


def unescape(text):
    def rep(m):
        t = m.group(0)
        if t in PREDEF:
            return PREDEF[t]
        try:
            if t.startswith("&#x"):
                return chr(int(t[3:-1], 16))
            if t.startswith("&#"):
                return chr(int(t[2:-1]))
        except (ValueError, OverflowError):
            pass
        return t
    return ENTITY_RX.sub(rep, text)


def analyse(engine, s):
    """Tokenise and validate engine markup.
    returns dict: problems [(kind, where, cls, detail)], text (character data with the tags removed and entities decoded),
    tags [Tag], bookmarks [names], remarks [range remarks], unreliable (True when the text/tag boundary itself is in doubt)"""
    vocab = VOCAB[engine]
    fold = (lambda x: x.lower()) if engine == "SAPI5" else (lambda x: x)     # SAPI XML tags are not case-sensitive
    problems, remarks, tags, bookmarks = [], [], [], []
    text_parts = []
    stack = []          # [name, content-model, has_content, start]
    unreliable = False
    i, n = 0, len(s)
    seg_start = 0

    def flush_text(upto):
        seg = s[seg_start:upto]
        if seg:
            text_parts.append(seg)
            if seg.strip() and stack:
                top = stack[-1]
                top[2] = True
                if top[1] == "EMPTY":
                    problems.append(("nesting", top[0], "content-in-empty-element", seg[:40]))
            for m in re.finditer("&", seg):
                if not ENTITY_RX.match(seg, m.start()):
                    problems.append(("syntax", "#text", "bare-ampersand", seg[max(0, m.start() - 15):m.start() + 15]))
                    break

    while i < n:
        c = s[i]
        if c != "<":
            i += 1
            continue
        local = []
        tag, nxt = _parse_tag(s, i, local)
        if tag is None:
            problems.append(("syntax", "#text", "bare-less-than", s[max(0, i - 15):i + 15]))
            unreliable = True
            i = nxt
            continue
        flush_text(i)
        seg_start = tag.end
        i = tag.end
        name = fold(tag.name)
        tag.name = name
        tag.attrs = [(fold(a), v) for a, v in tag.attrs]
        if name in ANY_TTS_TAG:
            local = [(k, fold(w), c2, d) for (k, w, c2, d) in local]
        else:       # the "tag" is most likely text: never let its spelling into a problem class
            local = [(k, "*@*" if "@" in w else "*", c2, d) for (k, w, c2, d) in local]
        tags.append(tag)
        if name not in vocab:
            cls = "tag-of-other-engine" if name in ANY_TTS_TAG else "unknown-tag"
            problems.append(("vocabulary", name if name in ANY_TTS_TAG else "*", cls, s[tag.start:tag.end][:80]))
            if name not in ANY_TTS_TAG:
                unreliable = True
            problems.extend(local)
            # still track nesting by name so that a consistent foreign pair does not cascade
            model = "MIXED"
            spec = {}
        else:
            problems.extend(local)
            spec, model = vocab[name]
        if tag.kind in ("open", "empty"):
            if stack:
                stack[-1][2] = True
                if stack[-1][1] == "EMPTY":
                    problems.append(("nesting", stack[-1][0], "content-in-empty-element", "<" + name))
                elif stack[-1][1] == "TEXT":
                    remarks.append("%s-element-inside-%s" % (engine.lower(), stack[-1][0]))
            seen = set()
            for a, v in tag.attrs:
                seen.add(a)
                if name in vocab:
                    if a not in spec:
                        problems.append(("vocabulary", "%s@%s" % (name, a), "unknown-attribute", s[tag.start:tag.end][:80]))
                        continue
                    cls = spec[a][0](unescape(v))
                    if cls:
                        problems.append(("attr-value", "%s@%s" % (name, a), cls, s[tag.start:tag.end][:80]))
                    else:
                        r = _range_remark(engine, name, a, v)
                        if r:
                            remarks.append(r)
            if name in vocab:
                for a, (g, required) in spec.items():
                    if required and a not in seen:
                        problems.append(("syntax", "%s@%s" % (name, a), "required-attribute-missing", s[tag.start:tag.end][:80]))
                one_of = NEED_ONE_OF.get((engine, name))
                if one_of and not (seen & set(one_of)):
                    problems.append(("syntax", "%s@%s" % (name, "|".join(one_of)), "required-attribute-missing", s[tag.start:tag.end][:80]))
            bm = BOOKMARK_ATTR[engine]
            if name == bm[0]:
                for a, v in tag.attrs:
                    if a == bm[1]:
                        bookmarks.append(unescape(v))
            if tag.kind == "open" and name in ANY_TTS_TAG:
                stack.append([name, model, False, tag.start])
        elif name not in ANY_TTS_TAG:
            pass        # most likely text; already reported as unknown-tag
        else:  # close
            if not stack:
                problems.append(("nesting", name, "end-tag-without-start-tag", s[max(0, tag.start - 30):tag.end]))
            elif stack[-1][0] == name:
                stack.pop()
            else:
                names = [e[0] for e in stack]
                if name in names:
                    # some inner elements were never closed
                    while stack[-1][0] != name:
                        inner = stack.pop()
                        problems.append(("nesting", inner[0], "element-not-closed", s[inner[3]:inner[3] + 60]))
                    stack.pop()
                else:
                    top = stack.pop()
                    problems.append(("nesting", "%s/%s" % (top[0], name), "closed-by-other-name", s[top[3]:top[3] + 40] + " … " + s[tag.start:tag.end]))
    flush_text(n)
    for e in stack:
        problems.append(("nesting", e[0], "element-not-closed", s[e[3]:e[3] + 60]))
    text = unescape("".join(text_parts))
    return {"problems": problems, "text": text, "tags": tags, "bookmarks": bookmarks, "remarks": remarks, "unreliable": unreliable}


def xml_second_opinion(engine, s):
    """None when Python's XML parser accepts the markup wrapped in a root element, else the parser's message class"""
    root = "speak" if engine == "SSML" else "sapi"
    try:
        ET.fromstring("<%s>%s</%s>" % (root, s, root))
        return None
    except ET.ParseError as e:
        return re.sub(r":? ?line \d+, column \d+", "", str(e)).strip()
    except Exception as e:       # e.g. ValueError on embedded NULs
        return type(e).__name__


PAUSE_PUNCT = re.compile(r"[,;]")
SPACE = re.compile(r"\s+", re.U)


def words_key(text):
    """words 'pauses aside': pause punctuation and ALL white space removed (see DESIGN C13-T)"""
    return SPACE.sub("", PAUSE_PUNCT.sub("", text)).replace(" ", "")


def diff_middle(a, b):
    """the differing middles of two strings after removing the common prefix and suffix"""
    i = 0
    while i < len(a) and i < len(b) and a[i] == b[i]:
        i += 1
    j = 0
    while j < len(a) - i and j < len(b) - i and a[len(a) - 1 - j] == b[len(b) - 1 - j]:
        j += 1
    return a[i:len(a) - j], b[i:len(b) - j]
