"""C20 — braille highlighting and cursor routing are safe and side-effect free.

Runtime monitor.  For every generated expression, in one braille code and one highlight style, the monitor asks the real library
  * get_braille(id) for EVERY id of the canonical MathML returned by set_mathml and for ids that are not in the expression,
  * get_navigation_node_from_braille_position(p) for EVERY cell index p of get_braille("") and for positions beyond the end,
  * get_braille_position() and get_navigation_braille(),
in a seeded random order, interleaved with navigation commands, and takes a snapshot
  S = (every preference, the navigation state from the verif_nav_snapshot hook, get_spoken_text(), get_braille(""))
before and after every single query.  The oracle is the property statement itself: S unchanged; Ok results for ids/positions of the
expression; s <= e <= length; routed ids belong to the expression; highlight Off / absent id give exactly the unhighlighted braille;
the cells carrying dots 7-8 of the braille highlighted for the navigation node lie inside the (s, e) of get_braille_position.
It shares no code with MathCAT (Python's XML parser reads the ids, Unicode arithmetic reads dots 7-8)."""
import os
import random
import re
import shutil
import time

from . import configs, core, gen, mml, shrink

PROP = "C20"

TEXT_CODES = ("LaTeX", "ASCIIMath")            # output is text, not braille cells: purity and no-panic only
STYLES = ["Off", "FirstChar", "EndPoints", "All"]

NAV_MOVES = ["ZoomIn", "ZoomIn", "ZoomIn", "ZoomOut", "MoveNext", "MoveNext", "MovePrevious", "MoveStart", "MoveEnd", "ZoomInAll",
             "ZoomOutAll", "MoveLastLocation", "MoveCellNext", "MoveCellPrevious", "MoveCellDown", "MoveCellUp", "MoveLineStart",
             "MoveLineEnd", "MoveColumnStart", "MoveColumnEnd", "ToggleZoomLockUp", "ToggleZoomLockDown", "ToggleSpeakMode",
             "ReadCurrent", "DescribeCurrent", "WhereAmI", "SetPlacemarker1", "MoveTo1", "ReadNext", "DescribePrevious"]
NAV_KEYS = [37, 38, 39, 40, 36, 35, 13, 32, 8]      # arrows, home, end, enter, space, backspace

# fixed expressions that every run examines first (degenerate and classic shapes; the random workload follows)
SEED_EXPRESSIONS = [
    "<math><mi>x</mi></math>",
    "<math><mn>5</mn></math>",
    "<math><mrow/></math>",
    "<math><mtext> </mtext></math>",
    "<math><mspace width='1em'/></math>",
    "<math><mo>-</mo><mn>11</mn></math>",
    "<math><mi>sin</mi><mo>&#x2061;</mo><mi>x</mi></math>",
    "<math><mi>f</mi><mo>&#x2061;</mo><mrow><mo>(</mo><mi>x</mi><mo>)</mo></mrow></math>",
    "<math><mn>2</mn><mo>&#x2062;</mo><mi>x</mi></math>",
    "<math><mfrac><mn>1</mn><mi>X</mi></mfrac></math>",
    "<math><msup><mi>x</mi><mn>2</mn></msup><mo>+</mo><mi mathvariant='bold'>B</mi></math>",
    "<math><mi>&#x393;</mi><mo>=</mo><msqrt><mi>y</mi></msqrt></math>",
    "<math><mn>3</mn><mfrac><mn>1</mn><mn>2</mn></mfrac></math>",
    "<math><mtable><mtr><mtd><mn>1</mn></mtd><mtd><mn>2</mn></mtd></mtr><mtr><mtd><mn>3</mn></mtd><mtd><mn>4</mn></mtd></mtr></mtable></math>",
    "<math><mi>x</mi><mtext>where</mtext><mi>X</mi><mo>&gt;</mo><mn>0</mn></math>",
    "<math><msub><mi>a</mi><mn>1</mn></msub><msub><mi>a</mi><mn>2</mn></msub><msub><mi>a</mi><mn>3</mn></msub><msub><mi>a</mi><mn>4</mn></msub>"
    "<msub><mi>a</mi><mn>5</mn></msub><msub><mi>a</mi><mn>6</mn></msub></math>",
    "<math><mn>2025</mn><mo>+</mo><mn>1,234.5</mn></math>",
    "<math><mi>x</mi><mo>=</mo><mi>sin</mi><mo>&#x2061;</mo><mi>y</mi></math>",
    "<math><mi>x</mi><mo>=</mo><mtext>a &#xA0; b</mtext></math>",
    "<math><mtext>na&#xEF;ve caf&#xE9;</mtext><mi>&#x394;x</mi><mo>&#x2260;</mo><mi>arcsin</mi></math>",
]


# --------------------------------------------------------------------------------------------
# what is compared
# --------------------------------------------------------------------------------------------
_PREF_NAMES = None


def pref_names():
    """every preference the library documents: prefs.yaml (flattened) + the API-only ones"""
    global _PREF_NAMES
    if _PREF_NAMES is None:
        names = list(configs.prefs_yaml().keys())
        for k in configs.API_DEFAULTS:
            if k not in names:
                names.append(k)
        if "BrailleNavHighlight" not in names:
            names.append("BrailleNavHighlight")
        _PREF_NAMES = names
    return _PREF_NAMES


def snap_ops():
    return [("get_preference", n) for n in pref_names()] + [("nav_snapshot",), ("get_spoken_text",), ("get_braille", "")]


def _val(r):
    if r["r"] == "ok":
        return ("ok", r.get("v") if not isinstance(r.get("v"), list) else tuple(r["v"]))
    if r["r"] == "err":
        return ("err", r.get("e", ""))
    return ("panic", (r.get("p") or {}).get("msg", ""))


def _hashable(x):
    if isinstance(x, dict):
        return tuple(sorted((k, _hashable(v)) for k, v in x.items()))
    if isinstance(x, list):
        return tuple(_hashable(v) for v in x)
    return x


class Snap:
    """one observation of the session state through the public API and the navigation hook"""
    __slots__ = ("prefs", "nav", "speech", "braille", "raw_nav")

    def __init__(self, results):
        n = len(pref_names())
        self.prefs = tuple(_val(r) for r in results[:n])
        self.raw_nav = results[n].get("v") if results[n]["r"] == "ok" else None
        self.nav = (results[n]["r"], _hashable(self.raw_nav))
        self.speech = _val(results[n + 1])
        self.braille = _val(results[n + 2])

    def diff(self, other):
        """names of the components that differ"""
        out = []
        if self.prefs != other.prefs:
            for name, a, b in zip(pref_names(), self.prefs, other.prefs):
                if a != b:
                    out.append(("pref:" + name, "%r -> %r" % (a, b)))
        if self.nav != other.nav:
            out.append(("navigation-state", "%r -> %r" % (self.raw_nav, other.raw_nav)))
        if self.speech != other.speech:
            out.append(("speech", "%r -> %r" % (self.speech, other.speech)))
        if self.braille != other.braille:
            out.append(("braille", "%r -> %r" % (self.braille, other.braille)))
        return out

    def nav_node(self, root_id):
        """(id, offset) of the current navigation node as the hook reports it (root when the stack is empty)"""
        try:
            ps = self.raw_nav["position_stack"]
            if ps:
                return ps[-1][0], ps[-1][1]
        except Exception:
            pass
        return root_id, 0


def is_cell(ch):
    return 0x2800 <= ord(ch) <= 0x28FF


def marked(ch):
    """dots 7-8 set"""
    return is_cell(ch) and (ord(ch) & 0xC0) != 0


def clear_marks(s):
    return "".join(chr(ord(c) & ~0xC0) if is_cell(c) else c for c in s)


def msg_class(msg):
    m = re.sub(r"'[^']*'|\"[^\"]*\"|`[^`]*`", "'…'", msg or "")
    m = re.sub(r"\d+", "N", m)
    return m.splitlines()[0][:100] if m else ""


def err_class(e):
    """stable class of an error chain: its last 'caused by' line (or first line), literals abstracted"""
    lines = [l for l in (e or "").splitlines() if l.strip()]
    causes = [l[len("caused by: "):] for l in lines if l.startswith("caused by: ")]
    root = causes[-1] if causes else (lines[0] if lines else "")
    root = re.sub(r"<.*", "", root)
    return msg_class(root)[:80]


# --------------------------------------------------------------------------------------------
# session: one driver process; every case may run in a fresh MathCAT thread of it
# --------------------------------------------------------------------------------------------
class Sess:
    def __init__(self, flavour="native"):
        self.flavour = flavour
        self.d = None
        self.thread = 0
        self.inited = False

    def ensure(self):
        if self.d is None or not self.d.alive():
            if self.d is not None:
                self.d.close()
            self.d = core.Driver(self.flavour, timeout=60 if self.flavour != "native" else 30)
            self.inited = False
        if not self.inited:
            self.d.init({"TTS": "None", "Language": "en"}, s=self.sname())
            self.inited = True
        return self.d

    def sname(self):
        return "t%d" % self.thread

    def fresh_state(self):
        """continue in a brand-new MathCAT thread (fresh thread-local state) of the same process"""
        if self.d is not None and self.d.alive():
            try:
                self.d.raw({"op": "end_session", "s": self.sname()})
            except (core.DriverDied, core.DriverTimeout):
                self.close()
        self.thread += 1
        self.inited = False

    def batch(self, ops):
        return self.ensure().batch(ops, s=self.sname())

    def close(self):
        if self.d is not None:
            self.d.close()
            self.d = None
        self.inited = False


# --------------------------------------------------------------------------------------------
# one case = one expression in one configuration with a seeded query plan
# --------------------------------------------------------------------------------------------
class ProblemBase(Exception):
    def __init__(self, kind, key, detail, query=None, feat="-"):
        Exception.__init__(self, kind)
        self.kind = kind          # oracle sub-check
        self.key = key            # cheap pre-cluster key / stable part of the signature
        self.feat = feat          # observable features of the plain braille (part of the signature, not of the pre-cluster key)
        self.detail = detail
        self.query = query
        self.where = "phase"      # "sweep" when seen while navigation was put on the characters of a token
        self.offmark = ""


def absent_ids(ids, rng):
    """strings that are no id of the expression, most of them near misses of real ids"""
    have = set(ids)
    cands = ["nosuchid", "M", " ", "id", "⠀"]
    for i in rng.sample(ids, min(2, len(ids))):
        cands += [i + "0", i + "-1", i[:-1], i[: max(1, len(i) // 2)], i.upper() if i.upper() != i else i.lower(), " " + i, i + " "]
    out = []
    for c in cands:
        if c and c not in have and c not in out:
            out.append(c)
    return out


STAY_COMMANDS = ["ReadCurrent", "DescribeCurrent", "WhereAmI", "WhereAmIAll", "ToggleSpeakMode", "SetPlacemarker3", "Describe3"]   # do not move


def nav_ops(step, ids, leaf_text=None):
    """driver op of one navigation step.  Elements are addressed by document index, characters by (multi-character leaf index, offset),
    so that a step means the same thing whatever the random prefix of the ids is.  leaf_text: id -> text of every token element."""
    kind = step[0]
    leaf_text = leaf_text or {}
    if kind == "cmd":
        return ("do_navigate_command", step[1])
    if kind == "key":
        return ("do_navigate_keypress", step[1], bool(step[2]), bool(step[3]), bool(step[4]), False)
    if kind == "node":
        target = ids[step[1] % len(ids)]
        k = step[2] if len(step) > 2 else 0
        off = k % (len(leaf_text[target]) + 1) if k and leaf_text.get(target) else 0     # offset len(text) is the first illegal one
        return ("set_navigation_node", target, off)
    if kind == "char":
        multi = [i for i in ids if len(leaf_text.get(i, "")) >= 2]
        if not multi:
            return ("set_navigation_node", ids[0], 0)
        target = multi[step[1] % len(multi)]
        return ("set_navigation_node", target, step[2] % (len(leaf_text[target]) + 1))
    raise ValueError(step)


def random_nav(rng, n_phases):
    phases = []
    for _ in range(n_phases):
        steps = []
        for _ in range(rng.choice([1, 1, 2, 3])):
            r = rng.random()
            if r < 0.6:
                steps.append(["cmd", rng.choice(NAV_MOVES)])
            elif r < 0.75:
                steps.append(["key", rng.choice(NAV_KEYS), int(rng.random() < 0.3), int(rng.random() < 0.3), 0])
            else:
                steps.append(["node", rng.randrange(1000), rng.choice([0, 0, 1, 2, 3, 5, 8])])
        phases.append(steps)
    return phases


def examine(sess, case, st=None):
    """Run the case in the session's current MathCAT thread and judge every query.
    Raises ProblemBase at the first refuting observation (the state may be poisoned afterwards).
    Returns a small dict of facts about the case otherwise.  DriverDied/DriverTimeout propagate with .c20_query set."""
    code, style = case["code"], case["style"]
    text_code = code.startswith(TEXT_CODES)
    count = st.count if st is not None else (lambda *a, **k: None)
    SN = snap_ops()
    nsn = len(SN)
    # the unhighlighted braille of the expression is taken with highlighting Off; everything else runs in the case's style
    ops = [("set_preference", "BrailleCode", code), ("set_preference", "BrailleNavHighlight", "Off")]
    for k, v in sorted(case.get("prefs", {}).items()):
        ops.append(("set_preference", k, v))
    ops += [("set_mathml", case["mathml"]), ("get_braille", ""), ("set_preference", "BrailleNavHighlight", style)]
    res = sess.batch(ops + SN)
    i_sm = len(ops) - 3
    for o, r in zip(ops, res):
        if o[0] == "set_preference" and r["r"] != "ok":
            count("skipped_set_preference_" + r["r"])
            return {"skipped": "set_preference"}
    sm = res[i_sm]
    if sm["r"] != "ok":
        count("skipped_set_mathml_" + sm["r"])          # C08's business
        return {"skipped": "set_mathml"}
    if res[i_sm + 1]["r"] != "ok":
        count("skipped_plain_braille_" + res[i_sm + 1]["r"])   # braille of the expression itself fails: C06/C08/C15, not a routing matter
        return {"skipped": "get_braille"}
    base = res[i_sm + 1]["v"]                            # THE unhighlighted braille
    S = Snap(res[len(ops):])
    try:
        root = mml.parse(sm["v"])
        ids = mml.ids_of(root)
    except Exception:
        count("skipped_unparsable_canonical_mathml")     # C02's business
        return {"skipped": "canonical"}
    if not ids or root.get("id") is None:
        count("skipped_no_ids")                           # C09's business
        return {"skipped": "ids"}
    idset = set(ids)
    root_id = root.get("id")
    leaf_text = {e.get("id"): (e.text or "") for e in root.iter()
                 if e.get("id") is not None and len(e) == 0 and mml.local(e.tag) in ("mi", "mn", "mo", "mtext", "ms")}
    cells = list(base)
    n = len(cells)
    if not text_code and not all(is_cell(c) for c in cells):
        count("observation_expressions_with_non_braille_characters_in_output")      # C07's business
    own_marks = set(c for c in cells if marked(c))       # cells of the plain braille that carry dots 7-8 themselves (row separators)
    if own_marks:
        count("expressions_whose_plain_braille_uses_dots_7_8")
    # observable features of the plain braille that characterise a cause; they become part of the signature
    feat = "+".join((["text-code"] if text_code else []) + (["non-cell-output"] if not text_code and not all(is_cell(c) for c in cells) else [])
                    + (["own-8dot-cells"] if own_marks else [])) or "-"

    cur = {"off": 0, "where": "phase"}     # offset of the navigation position and kind of phase the queries run in

    def Problem(kind, key, detail, q=None):
        p = ProblemBase(kind, key, detail + (" [navigation offset %d]" % cur["off"] if cur["off"] else ""), q, feat)
        p.where = cur["where"]
        p.offmark = ":nav-offset>0" if cur["off"] else ""      # part of the signature (like feat), not of the pre-cluster key
        return p

    if st is not None:
        st.evaluations += 1
    if S.braille != ("ok", base):
        raise Problem("absent-id-differs", "A:empty-id", "BrailleNavHighlight=%s: get_braille(\"\") = %r differs from the unhighlighted braille %r (taken with BrailleNavHighlight=Off)"
                      % (style, S.braille[1], base), ("A", ""))

    # ---- the query plan (deterministic in plan_seed, ids by document index, positions by cell index) ----
    rng = random.Random(case["plan_seed"])
    id_idx = list(range(len(ids)))
    positions = list(range(n))
    exhaustive = True
    if len(id_idx) > case["max_ids"]:
        id_idx = sorted(rng.sample(id_idx, case["max_ids"]))
        exhaustive = False
    if len(positions) > case["max_pos"]:
        positions = sorted(rng.sample(positions, case["max_pos"]))
        exhaustive = False
    queries = [("B", ids[i]) for i in id_idx] + [("P", p) for p in positions]
    queries += [("A", a) for a in absent_ids(ids, rng)]
    queries += [("O", p) for p in [n, n + 1, n + rng.randint(2, 40), 3 * n + 7, 2 ** 31, 2 ** 53, 18446744073709551615]]
    queries += [("NB",)] * 2
    rng.shuffle(queries)
    focus = case.get("focus")            # only while minimising: the kinds of query that showed the problem (same plan, fewer queries)
    if focus:
        queries = [q for q in queries if q[0] in focus]
    nav = case.get("nav", [])
    nph = len(nav) + 1
    chunks = [queries[i::nph] for i in range(nph)]
    phase_list = [(None if i == 0 else nav[i - 1], chunks[i], "phase") for i in range(nph)]
    # ---- character sweep: navigation ON A CHARACTER of every token with several characters (only set_navigation_node(id, offset) gets
    # there), every offset 0..len(text) (the last one is refused and leaves navigation where it was), sometimes followed by a command
    # that does not move; then the same position/highlight/purity clauses as for every other navigation position ----
    rng2 = random.Random(case["plan_seed"] ^ 0x5BD1E995)
    multi = [i for i in ids if len(leaf_text.get(i, "")) >= 2]
    chars = [(li, off) for li, i in enumerate(multi) for off in range(len(leaf_text[i]) + 1)]
    max_off = case.get("max_off", 0)
    sweep_exhaustive = len(chars) <= max_off
    if not sweep_exhaustive:
        chars = sorted(rng2.sample(chars, max_off))
    if not focus or "SWEEP" in focus:
        for li, off in chars:
            steps = [["char", li, off]]
            if rng2.random() < 0.35:
                steps.append(["cmd", rng2.choice(STAY_COMMANDS)])
            phase_list.append((steps, [("NB",)] if not focus or "NB" in focus else [], "sweep"))

    facts = {"ids": len(ids), "cells": n, "exhaustive": exhaustive, "highlighted": 0, "routed": 0, "navnode_checks": 0, "phases": 0,
             "nav_nodes": set(), "trap": 0, "char_positions": 0,
             "multi_char_leaves": len(multi), "sweep_exhaustive": sweep_exhaustive}

    def check_pure(q, before, after):
        d = before.diff(after)
        if d:
            comp = d[0][0]
            raise Problem("state-changed", "%s:%s" % (q[0], comp),
                          "%s changed %s" % (describe(q), "; ".join("%s: %s" % x for x in d)[:900]), q)

    def check_not_panic(q, r):
        if r["r"] == "panic":
            p = r.get("p") or {}
            raise Problem("panic", "%s:%s:%s" % (q[0], (p.get("fn") or "?").split(" <- ")[0], msg_class(p.get("msg"))),
                          "%s panicked: %s at %s in %s" % (describe(q), p.get("msg"), p.get("loc"), p.get("fn")), q)

    def describe(q):
        names = {"B": "get_braille(id of the expression)", "A": "get_braille(absent id %r)" % (q[1] if len(q) > 1 else "",),
                 "P": "get_navigation_node_from_braille_position(%s) [braille has %d cells]" % (q[1] if len(q) > 1 else "", n),
                 "O": "get_navigation_node_from_braille_position(%s) [out of range, braille has %d cells]" % (q[1] if len(q) > 1 else "", n),
                 "BP": "get_braille_position()", "NB": "get_navigation_braille()", "BN": "get_braille(id of the navigation node)"}
        s = names[q[0]]
        if q[0] in ("B", "BN"):
            s += " [element #%d of %d]" % (ids.index(q[1]), len(ids))
        return s

    def qop(q):
        if q[0] in ("B", "A", "BN"):
            return ("get_braille", q[1])
        if q[0] in ("P", "O"):
            return ("get_navigation_node_from_braille_position", q[1])
        if q[0] == "BP":
            return ("get_braille_position",)
        return ("get_navigation_braille",)

    for nav_steps, chunk, where in phase_list:
        cur["where"] = where
        cur["off"] = 0
        # ---- navigation (not judged here: C11), then a new reference snapshot ----
        if nav_steps is not None:
            nops = [nav_ops(s, ids, leaf_text) for s in nav_steps]
            res = sess.batch(nops + SN)
            for o, r in zip(nops, res):
                count("navigation_calls_" + r["r"])
                if r["r"] == "panic" and st is not None:      # C11's/C08's business: recorded, not judged
                    st.add("navigation_panics_seen_not_judged", "%s: %s: %s" % (o[0], ((r.get("p") or {}).get("fn") or "?").split(" <- ")[0], msg_class((r.get("p") or {}).get("msg"))))
            S = Snap(res[len(nops):])
            if S.braille != ("ok", base):
                count("plain_braille_changed_by_navigation")       # navigation is C11's subject; the queries cannot be judged any more
                return facts
        nav_id, nav_off = S.nav_node(root_id)
        cur["off"] = nav_off
        if nav_off:
            count("phases_with_navigation_on_a_character_offset_gt_0")
            facts["char_positions"] += 1
        nav_in_expr = nav_id in idset
        if not nav_in_expr:
            count("navigation_node_not_in_expression")      # C11's business; node-specific clauses are skipped
        facts["nav_nodes"].add(ids.index(nav_id) if nav_in_expr else -1)
        facts["phases"] += 1
        qs = [("BP",)] + ([("BN", nav_id)] if nav_in_expr and (not focus or "BN" in focus) else []) + chunk + [("BP",)]
        ops = []
        for q in qs:
            ops.append(qop(q))
            ops.extend(SN)
        try:
            res = sess.batch(ops)
        except (core.DriverDied, core.DriverTimeout) as e:
            e.c20_queries = [describe(q) for q in qs]
            raise
        last_bp = None
        nav_len = None
        for i, q in enumerate(qs):
            r = res[i * (nsn + 1)]
            after = Snap(res[i * (nsn + 1) + 1:(i + 1) * (nsn + 1)])
            if st is not None:
                st.evaluations += 1
            check_not_panic(q, r)
            if r.get("bad_utf8"):
                raise Problem("invalid-utf8", q[0], "%s returned a string that is not valid UTF-8" % describe(q), q)
            check_pure(q, S, after)
            k = q[0]
            if k == "BP":
                if nav_in_expr:
                    if r["r"] != "ok":
                        raise Problem("query-failed", "BP:" + err_class(r.get("e")), "%s returned Err: %s" % (describe(q), (r.get("e") or "")[:600]), q)
                    s_, e_ = r["v"]
                    # the positions refer to the braille in which the navigation node is highlighted (what a display shows); its length can
                    # differ from that of the unhighlighted braille (contractions and indicators depend on the neighbouring cells)
                    if not text_code and not (0 <= s_ <= e_ and (nav_len is None or e_ <= nav_len)):
                        raise Problem("bad-position", "BP", "%s = (%s, %s) but the braille with the navigation node highlighted has %s cells (unhighlighted: %d)"
                                      % (describe(q), s_, e_, nav_len, n), q)
                    last_bp = (s_, e_)
                    count("braille_positions_checked")
                    if e_ > n:
                        count("observation_position_beyond_length_of_unhighlighted_braille")
            elif k in ("B", "BN"):
                if r["r"] != "ok":
                    raise Problem("query-failed", "B:" + err_class(r.get("e")), "%s returned Err: %s" % (describe(q), (r.get("e") or "")[:600]), q)
                hb = r["v"]
                if k == "BN" and not text_code:
                    nav_len = len(hb)
                    if last_bp is not None and last_bp[1] > nav_len:
                        raise Problem("bad-position", "BP", "get_braille_position() = (%s, %s) but get_braille(id of the navigation node) = %r has %d cells"
                                      % (last_bp[0], last_bp[1], hb, nav_len), q)
                if style == "Off":
                    if hb != base:
                        raise Problem("off-differs", "B", "BrailleNavHighlight=Off but %s = %r differs from get_braille(\"\") = %r" % (describe(q), hb, base), q)
                    count("highlight_off_equalities")
                elif not text_code:
                    hcells = list(hb)
                    H = [j for j, c in enumerate(hcells) if marked(c) and c not in own_marks]
                    if hb != base:
                        facts["highlighted"] += 1
                        count("highlighted_brailles")
                        if not own_marks and clear_marks(hb) != base:
                            facts["trap"] += 1
                            count("observation_clearing_dots78_does_not_give_plain_braille")
                    else:
                        count("highlight_requests_without_visible_highlight")
                    if k == "BN" and last_bp is not None:
                        s_, e_ = last_bp
                        bad = [j for j in H if not (s_ <= j <= e_)]
                        if bad:
                            raise Problem("highlight-outside-position", "BN:outside=U+28FF" if bad and all(hcells[j] == "\u28ff" for j in bad) else "BN",
                                          "navigation node is element #%d; get_braille_position() = (%d, %d) but get_braille(that id) = %r has dots 7-8 at cells %s (%d cells)"
                                          % (ids.index(nav_id), s_, e_, hb, H, len(hcells)), q)
                        facts["navnode_checks"] += 1
                        count("navigation_node_highlight_within_position")
                        if nav_off:
                            count("navigation_node_highlight_within_position_at_offset_gt_0")
                        if H:
                            count("navigation_node_highlight_nonempty")
                            if (s_, e_) != (H[0], H[-1]):
                                count("observation_position_wider_than_highlight")
                else:
                    count("text_code_highlight_requests")
            elif k == "A":
                if r["r"] != "ok" or r["v"] != base:
                    raise Problem("absent-id-differs", "A:" + absent_class(q[1], ids),
                                  "%s = %r differs from get_braille(\"\") = %r" % (describe(q), r.get("v", r.get("e")), base), q)
                count("absent_id_equalities")
            elif k == "P":
                if text_code:
                    count("routing_queries_on_text_code_" + r["r"])
                    continue
                if r["r"] != "ok":
                    raise Problem("query-failed", "P:" + err_class(r.get("e")), "%s returned Err: %s" % (describe(q), (r.get("e") or "")[:600]), q)
                rid, roff = r["v"]
                if rid not in idset:
                    raise Problem("routed-id-not-in-expression", "P", "%s = (%r, %s); ids of the expression: %s" % (describe(q), rid, roff, ids[:40]), q)
                facts["routed"] += 1
                count("routing_queries_ok")
                if not (0 <= roff <= n):
                    count("observation_routing_offset_beyond_braille_length")
                if st is not None:
                    st.add("routed_element_kinds", element_name(root, rid))
            elif k == "O":
                count("out_of_range_positions_" + r["r"])
                if r["r"] == "ok" and not text_code and r["v"][0] not in idset:
                    count("observation_out_of_range_position_gives_foreign_id")
            elif k == "NB":
                count("navigation_braille_" + r["r"] + ("" if nav_in_expr else "_navigation_node_not_in_expression"))
                if r["r"] != "ok" and nav_in_expr and st is not None:
                    st.add("navigation_braille_errors", err_class(r.get("e")))
    return facts


def absent_class(a, ids):
    if any(i.startswith(a) for i in ids):
        return "prefix-of-id"
    if any(a.startswith(i) for i in ids):
        return "extension-of-id"
    if a.strip() in ids:
        return "padded-id"
    if a.lower() in [i.lower() for i in ids]:
        return "case-variant"
    return "unrelated"


def element_name(root, rid):
    for e in root.iter():
        if e.get("id") == rid:
            return mml.local(e.tag)
    return "?"


# --------------------------------------------------------------------------------------------
# running cases, minimising, signatures
# --------------------------------------------------------------------------------------------
def run_case(sess, case, st=None):
    """returns (Problem or None, facts or None, crashed?)"""
    try:
        return None, examine(sess, case, st), None
    except ProblemBase as p:
        return p, None, None
    except core.DriverDied as e:
        sess.close()
        return ProblemBase("abort", "abort:" + core.describe_exit(e.returncode),
                       "driver died (%s) during a batch of queries %s\n%s" % (core.describe_exit(e.returncode), getattr(e, "c20_queries", ["(setup)"])[:6], e.stderr_tail[-1200:])), None, \
            ("died" if hasattr(e, "c20_queries") else "died-in-setup")
    except core.DriverTimeout as e:
        sess.close()
        return None, None, "timeout"


def run_history(cases, flavour="native"):
    """cases in order in ONE fresh MathCAT state of a fresh driver; verdict of the last one"""
    sess = Sess(flavour)
    try:
        for c in cases[:-1]:
            p, f, crash = run_case(sess, c)
            if crash:
                return None
        p, f, crash = run_case(sess, cases[-1])
        if crash in ("timeout", "died-in-setup"):
            return None
        return p
    finally:
        sess.close()


def same(p, q):
    return p is not None and q is not None and p.kind == q.kind and p.key == q.key


def minimise(case, history, prob, flavour="native", budget_s=30):
    """history: earlier cases of the session.  Returns (cases list whose last element is the minimal case, Problem) or None when it
    cannot be reproduced from a fresh process."""
    t_end = time.time() + budget_s
    hist = []
    got = run_history([case], flavour)
    if not same(got, prob):
        got = run_history(history + [case], flavour)
        if not same(got, prob):
            return None
        hist = shrink.shrink_list(history, lambda h: time.time() < t_end and same(run_history(h + [case], flavour), prob), budget=12)
    prob = got
    sess = Sess(flavour)

    focus = None
    if prob.query is not None and prob.kind != "abort":
        focus = {"BN": ["BN", "BP"], "BP": ["BN", "BP"]}.get(prob.query[0], [prob.query[0]])
        if getattr(prob, "where", "phase") == "sweep":
            focus = focus + ["SWEEP"]

    def fails(c):
        if time.time() > t_end:
            return False
        c = dict(c, focus=focus) if focus else c
        if hist:
            return same(run_history(hist + [c], flavour), prob)
        sess.fresh_state()
        p, f, crash = run_case(sess, c)
        return same(p, prob)

    try:
        def with_tree(t):
            c = dict(case)
            c["mathml"] = t.xml()
            return c
        try:
            tree = gen.from_xml(case["mathml"])
        except Exception:
            tree = None
        best = dict(case)
        if tree is not None and tree.tag == "math":
            small = shrink.shrink_tree(tree, lambda t: fails(with_tree(t)), budget=400, leaf_factory=lambda: [gen.mn("3"), gen.mi("x")])
            # normal form for tokens with several characters (the shrinker's own normal form is the one-letter identifier)
            for node, path in list(small.walk()):
                if node.kids is None and len(node.text or "") > 1 and not (node.tag == "mi" and node.text == "sin") and path:
                    cand = shrink._replace_at(small, path, gen.mi("sin"))
                    if fails(with_tree(cand)):
                        small = cand
            best = with_tree(small)
        # navigation history, then extra preferences, then the configuration towards the defaults
        if best.get("nav"):
            flat = shrink.shrink_list(best["nav"], lambda nv: fails(dict(best, nav=nv)), budget=25)
            best = dict(best, nav=flat)
            slim = [shrink.shrink_list(steps, lambda s2, i=i: fails(dict(best, nav=best["nav"][:i] + [s2] + best["nav"][i + 1:])), budget=6) if len(steps) > 1 else steps
                    for i, steps in enumerate(best["nav"])]
            if fails(dict(best, nav=slim)):
                best = dict(best, nav=slim)
        for k in sorted(best.get("prefs", {})):
            trial = dict(best, prefs={a: b for a, b in best["prefs"].items() if a != k})
            if fails(trial):
                best = trial
        # the configuration in a fixed order of preference, so that one cause ends in one configuration whatever the seed was
        for key, order in (("code", ["Nemeth", "UEB"] + sorted(configs.braille_codes())), ("style", ["EndPoints", "Off", "FirstChar", "All"])):
            for value in order:
                if best[key] == value:
                    break
                trial = dict(best, **{key: value})
                if fails(trial):
                    best = trial
                    break
    finally:
        sess.close()
    final = run_history(hist + [best], flavour)
    if not same(final, prob):
        return hist + [case], prob
    return hist + [best], final


def skeleton_shape(t, depth=0):
    """element skeleton of the minimal witness; tokens are abstracted to their element name (which operator or letter it was is in the
    witness, not in the signature), structural attributes keep their names"""
    if t.kids is None:
        return t.tag
    keep = [k for k in sorted(t.attrs) if k in ("notation", "linethickness", "open", "close", "separators", "bevelled", "mathvariant")]
    attrs = "[" + ",".join(keep) + "]" if keep else ""
    if not t.kids:
        return t.tag + attrs + "()"
    if depth > 8:
        return t.tag + "(…)"
    return t.tag + attrs + "(" + ",".join(skeleton_shape(k, depth + 1) for k in t.kids) + ")"


def make_sig(prob, case, n_hist):
    cfg = "%s/%s" % (case["code"], case["style"])
    hist = "+history" if n_hist else ""
    key = prob.key + getattr(prob, "offmark", "")
    if prob.kind == "abort":
        return "%s | %s%s" % (prob.kind, key, hist)
    if prob.kind == "panic":
        return "%s | %s | %s%s" % (prob.kind, key, prob.feat, hist)
    if prob.kind == "state-changed":
        return "state-changed | %s | %s | %s%s" % (key, prob.feat, cfg, hist)
    try:
        shape = skeleton_shape(gen.from_xml(case["mathml"]))
    except Exception:
        shape = "?"
    return "%s | %s | %s | %s | %s%s" % (prob.kind, key, prob.feat, cfg, shape, hist)


def to_violation(cases, prob, flavour="native"):
    case = cases[-1]
    w = {"cases": cases}
    if flavour != "native":
        w["flavour"] = flavour
    return core.violation(prob.kind, make_sig(prob, case, len(cases) - 1), w,
                          "minimal witness %s code=%s highlight=%s nav=%s | %s" % (case["mathml"], case["code"], case["style"], case.get("nav"), prob.detail[:1200]))


def replay(witness):
    flavour = witness.get("flavour", "native")
    if flavour != "native":
        core.build_driver(flavour)
    cases = witness["cases"]
    p = run_history(cases, flavour)
    if p is None:
        return []
    return [to_violation(cases, p, flavour)]


# --------------------------------------------------------------------------------------------
# workload
# --------------------------------------------------------------------------------------------
def make_case(rng, code, tier_caps, mathml=None, depths=(1, 2, 2, 3)):
    if mathml is None and rng.random() < 0.03:
        # one long flat row (a chain of 40-90 terms, as in a long derivation line): cursor routing has to find cells far from both ends
        op = rng.choice(["=", "≤", "+", ",", "<", "→"])
        term = rng.choice([lambda: gen.mi(rng.choice("ABCDEFGHKMNPQRST")), lambda: gen.mi(rng.choice("ABCDEFGHKMNPQRST")), lambda: gen.mi(rng.choice("abcxyzuvw")),
                           lambda: gen.mn(str(rng.randint(1, 99)))])
        kids = [term()]
        for _ in range(rng.randint(50, 95)):
            kids += [gen.mo(op), term()]
        mathml = gen.math(gen.mrow(*kids)).xml() if rng.random() < 0.5 else gen.math(*kids).xml()
    if mathml is None:
        tb = gen.Textbook(rng, max_depth=rng.choice(depths), p_ident=rng.choice([0.3, 0.6, 0.8]))
        tree, _ = tb.expression()
        # textbook literals are two-digit decimals; shorten some so that more expressions fit the exhaustive cell budget
        for node, _ in tree.walk():
            if node.tag == "mn" and node.text and rng.random() < 0.6:
                node.text = rng.choice([node.text[:2], node.text[:1], node.text[:1], node.text[:4]])
            elif node.tag == "mi" and node.text and len(node.text) == 1 and rng.random() < 0.15:
                node.text = node.text.upper()
            # tokens with several characters whose braille need not have one cell per character: long numbers with separators,
            # function names, text with runs of blanks, non-ASCII text (navigation can rest on each of their characters)
            r = rng.random()
            if node.tag == "mn" and r < 0.12:
                node.text = rng.choice(["2025", "1,234", "12,345.67", "0.5", "1000000", "3.14159"])
            elif node.tag == "mi" and r < 0.06:
                node.text = rng.choice(["sin", "arcsin", "log", "lim", "max", "Δx", "αβ", "rad", "Ab"])
            elif node.tag == "mtext" and r < 0.5:
                node.text = rng.choice(["a \u00a0 b", "if  and   only if", "naïve café", "для всех", "x\u2003y", " and ", "so that…", "größer als"])
        # fragments as they occur in running text: a leading or trailing relation, sign or word (their braille starts/ends with material
        # that the braille clean-up trims or re-spaces)
        r = rng.random()
        if r < 0.07:
            tree = gen.math(gen.mrow(gen.mo(rng.choice(gen.RELS)), *tree.kids))
        elif r < 0.12:
            tree = gen.math(gen.mrow(*(tree.kids + [gen.mo(rng.choice(gen.RELS + [",", ".", ";"]))])))
        elif r < 0.15:
            tree = gen.math(gen.mrow(gen.mtext(rng.choice(["and", "where", "so", " "])), *tree.kids))
        elif r < 0.17:
            tree = gen.math(gen.mrow(*(tree.kids + [gen.mtext(rng.choice(["otherwise", " ", "."]))])))
        mathml = tree.xml()
    prefs = {}
    if code == "UEB" and rng.random() < 0.3:
        prefs["UEB_StartMode"] = rng.choice(["Grade1", "Grade2"])
    if code in ("Nemeth", "UEB") and rng.random() < 0.15:
        prefs["UseSpacesAroundAllOperators" if code == "Nemeth" else "UEB_UseSpacesAroundAllOperators"] = rng.choice(["true", "false"])
    return {"code": code, "style": rng.choice(STYLES), "mathml": mathml, "plan_seed": rng.randrange(1 << 30),
            "nav": random_nav(rng, rng.choice([1, 2, 3, 4])), "prefs": prefs, "max_ids": tier_caps[0], "max_pos": tier_caps[1],
            "max_off": tier_caps[2] if len(tier_caps) > 2 else 0}


def shard(spec):
    st = core.Stats()
    rng = random.Random(spec["seed"])
    flavour = spec.get("flavour", "native")
    deadline = time.time() + spec["time_budget"]
    caps = spec["caps"]
    seen_pre = set()
    n_shrunk = 0
    opened, _ = core.load_findings(PROP)
    sess = Sess(flavour)
    try:
        # the codes take turns (a few expressions each) so that a time budget that runs out does not starve the last codes;
        # one MathCAT state serves several codes in a row, which also exercises switching BrailleCode between expressions
        chunk = 5
        slots = []
        for x in spec.get("seed_expressions", []):
            slots += [(code, x) for code in spec["codes"]]
        for _ in range((spec["per_code"] + chunk - 1) // chunk):
            for code in spec["codes"]:
                slots += [(code, None)] * chunk
        history = []
        for code, fixed in slots:
            if time.time() > deadline:
                st.count("stopped_by_time_budget")
                break
            case = make_case(rng, code, caps, mathml=fixed, depths=spec.get("depths", (1, 2, 2, 3)))
            if len(history) >= spec["session_length"]:
                sess.fresh_state()
                history = []
            prob, facts, crash = run_case(sess, case, st)
            st.count("expressions")
            if crash == "timeout":
                st.inconclusive += 1
                st.count("driver_timeouts")
                sess.fresh_state()
                history = []
                continue
            if crash == "died-in-setup":
                st.inconclusive += 1                  # set_mathml / plain braille killed the process: C08's, not a query of this property
                st.count("driver_died_outside_the_queries")
                sess.fresh_state()
                history = []
                continue
            if prob is None:
                history.append(case)
                if "skipped" in facts:
                    continue
                st.add("configurations", "%s/%s" % (code, case["style"]))
                st.count("expressions_judged")
                st.count("expressions_judged_in_" + code)
                st.count("expressions_exhaustive" if facts["exhaustive"] else "expressions_sampled")
                st.count("cells_total", facts["cells"])
                st.count("ids_total", facts["ids"])
                st.count("phases_with_distinct_navigation_node", len(facts["nav_nodes"]))
                if facts["multi_char_leaves"]:
                    st.count("expressions_with_multi_character_tokens")
                    st.count("character_sweeps_exhaustive" if facts["sweep_exhaustive"] else "character_sweeps_sampled")
                if len(facts["nav_nodes"]) > 1:
                    st.count("expressions_where_navigation_moved")
                reached = facts["routed"] > 0 and (facts["highlighted"] > 0 or case["style"] == "Off") or code.startswith(TEXT_CODES)
                if reached:
                    st.nontrivial.add(core.h16("%s|%s|%s" % (code, case["style"], mml.skeleton(mml.parse(case["mathml"]), maxdepth=8))))
                if facts["highlighted"] and len(st.samples) < 3 and facts["cells"] > 6:
                    st.sample({"code": code, "highlight": case["style"], "mathml": case["mathml"][:500], "cells": facts["cells"], "ids": facts["ids"],
                               "highlighted_brailles": facts["highlighted"], "routing_queries": facts["routed"], "navigation": case["nav"]}, limit=3)
                continue
            # ---- a refuting observation ----
            st.count("raw_violations_" + prob.kind)
            raw = to_violation(history + [case], prob, flavour)
            kf = core.match_finding(raw, opened)
            pre = ("known", kf["id"]) if kf is not None else (prob.kind, prob.key)
            if pre in seen_pre:
                pass                                   # a member of a cluster that already has its representative: counted only
            elif n_shrunk < spec["max_shrinks"] + (3 if kf is not None else 0) and time.time() < deadline + 30:
                seen_pre.add(pre)
                n_shrunk += 1
                m = minimise(case, list(history), prob, flavour, budget_s=5 if kf is not None else 30)
                if m is None:
                    # seen once in a long session but not from a fresh process with the same history: keep the observation, flagged
                    raw["sig"] = "not-reproduced-from-fresh-process | " + raw["sig"]
                    st.violations.append(raw)
                else:
                    st.violations.append(to_violation(m[0], m[1], flavour))
            else:
                seen_pre.add(pre)                      # no budget left for minimising: the unminimised witness is reported as it is
                st.violations.append(raw)
            # the state may be poisoned: continue in a fresh one
            sess.fresh_state()
            history = []
    finally:
        sess.close()
    return st.to_dict()


def cell_codes():
    return [c for c in configs.braille_codes() if not c.startswith(TEXT_CODES)]


def text_codes():
    return [c for c in configs.braille_codes() if c.startswith(TEXT_CODES)]


def run(tier, seed):
    t0 = time.time()
    core.build_driver("native")
    rng = random.Random(core.sub_seed(seed, PROP))
    nsh = core.NPROC
    quick = tier == "quick"
    per_code = int(os.environ.get("C20_PER_CODE", "0")) or (26 if quick else 700)
    budget = 55 if quick else 1400
    caps = (70, 64, 14) if quick else (160, 150, 60)
    cc, tc = cell_codes(), text_codes()

    def spec(i, **kw):
        codes = list(cc)
        rng.shuffle(codes)
        if tc:
            codes.append(tc[i % len(tc)])
        d = {"seed": core.sub_seed(seed, PROP, i), "codes": codes, "per_code": per_code, "time_budget": budget, "caps": caps,
             "session_length": 30, "max_shrinks": 4, "seed_expressions": SEED_EXPRESSIONS[i % 4::4] if quick else SEED_EXPRESSIONS,
             "depths": (1, 2, 2, 3) if quick else (1, 2, 2, 3, 3, 4)}
        d.update(kw)
        return d

    # everything runs in ONE wave of NPROC processes: the instrumented shards take the place of native ones
    # the same workload in instrumented builds (DESIGN section 4): AddressSanitizer, and in the thorough tier the debug profile whose
    # overflow checks and debug assertions act as extra monitors on the position arithmetic of the routing search
    extra_builds = {}
    plan = [] if os.environ.get("VERIF_NO_SANITIZERS") == "1" or nsh < 4 else ([("asan", 1, 2, 40)] if quick else [("asan", 1, 60, 1200), ("dev", max(1, nsh // 5), 250, 1400)])
    harness_notes = []
    specs = []
    for flavour, n, pc, tb in plan:
        try:
            core.build_driver(flavour)
        except core.Inconclusive as e:
            extra_builds[flavour] = "build failed: %s" % e
            harness_notes.append("instrumented build %s not available: %s" % (flavour, e))
            continue
        extra_builds[flavour] = {"shards": n, "expressions_per_code": pc}
        specs = [spec(1000 + 10 * len(extra_builds) + j, flavour=flavour, per_code=pc, time_budget=tb, seed_expressions=SEED_EXPRESSIONS[j::2]) for j in range(n)] + specs
    specs = specs + [spec(i) for i in range(max(1, nsh - len(specs)))]
    results = core.run_shards(shard, specs)
    for sp, r in zip(specs, results):
        fl = sp.get("flavour")
        if fl and isinstance(extra_builds.get(fl), dict) and r and "harness_error" not in r:
            extra_builds[fl]["queries_judged"] = extra_builds[fl].get("queries_judged", 0) + r["evaluations"]
            extra_builds[fl]["violations"] = extra_builds[fl].get("violations", 0) + len(r["violations"])
    stats, errors = core.Stats.merge(results)
    stats.notes.extend(harness_notes)
    # a braille code whose expressions were (almost) all skipped -- e.g. because its plain braille fails -- was not examined: not "held"
    got = stats.counters.get("navigation_node_highlight_within_position_at_offset_gt_0", 0)
    if got < (40 if quick else 1500) and not errors:
        errors.append("too few observations: the position/highlight clauses were judged only %d times with navigation on a character (offset > 0)" % got)
    for code in cc + tc:
        need = (8 if quick else 100) if code in cc else (2 if quick else 20)      # text codes are examined for purity/no panic only
        got = stats.counters.get("expressions_judged_in_" + code, 0)
        if got < need and not errors:
            errors.append("too few observations: only %d expressions of braille code %s could be judged (need %d)" % (got, code, need))
    known, fixed_failures, extra_v = core.replay_findings(PROP, replay)
    stats.violations.extend(extra_v)
    shutil.rmtree(os.path.join(core.WORK, PROP), ignore_errors=True)
    return core.conclude(
        PROP, tier, seed, "exploration", stats,
        {"braille_codes": cc, "text_codes": tc, "highlight_styles": STYLES, "preferences_in_snapshot": len(pref_names()),
         "caps_ids_positions_characters": list(caps), "instrumented_builds": extra_builds},
        ["the snapshot is what the public API and the verif_nav_snapshot hook show: %d preferences, navigation stacks/markers/mode, speech, plain braille" % len(pref_names()),
         "the unhighlighted braille of an expression is get_braille(\"\") taken with BrailleNavHighlight=Off",
         "ids of the expression are read from set_mathml's return value with Python's XML parser",
         "LaTeX/ASCIIMath output is text: only purity and absence of panics are judged there",
         "navigation commands themselves are C11's subject; a navigation node outside the expression suspends the node-specific clauses",
         "'clearing dots 7-8 gives the plain braille' is deliberately NOT demanded (false for correct code); such cases are counted",
         "Miri is not used: loading a braille rule set under Miri takes many minutes per process (DESIGN section 4)"],
        t0,
        rule="textbook-grammar expressions (plus fixed degenerate ones) x every braille code that ships x highlight style {Off, FirstChar, EndPoints, All}; per expression "
             "get_braille(id) for all ids (cap %d) and near-miss absent ids, get_navigation_node_from_braille_position for all cells (cap %d) and out-of-range positions, navigation put on every character of every multi-character token (set_navigation_node(id, offset), cap %d) with the position/highlight clauses re-judged there, "
             "get_braille_position/get_navigation_braille, shuffled and interleaved with navigation, full state snapshot after every query; evaluations = judged queries; "
             "non-trivial = expression where routing answered and (style Off, or >= 1 braille really came back with dots 7-8), or a text code; distinct by (code, style, element skeleton)" % caps,
        min_nontrivial=100 if quick else 1500, harness_errors=errors, known_replayed=known, fixed_failures=fixed_failures)
