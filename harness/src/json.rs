//! Minimal JSON value, parser and writer (no external crates are available offline).

#[derive(Debug, Clone, PartialEq)]
pub enum J {
    Null,
    Bool(bool),
    Num(f64),
    Str(String),
    Arr(Vec<J>),
    Obj(Vec<(String, J)>),
    /// already serialised JSON (used for hook output)
    Raw(String),
}

impl J {
    pub fn get(&self, key: &str) -> Option<&J> {
        if let J::Obj(v) = self {
            for (k, val) in v {
                if k == key {
                    return Some(val);
                }
            }
        }
        None
    }
    pub fn as_str(&self) -> Option<&str> {
        if let J::Str(s) = self { Some(s) } else { None }
    }
    pub fn as_f64(&self) -> Option<f64> {
        if let J::Num(n) = self { Some(*n) } else { None }
    }
    pub fn as_bool(&self) -> Option<bool> {
        if let J::Bool(b) = self { Some(*b) } else { None }
    }
    pub fn as_arr(&self) -> Option<&Vec<J>> {
        if let J::Arr(a) = self { Some(a) } else { None }
    }
    pub fn s(x: &str) -> J { J::Str(x.to_string()) }
    pub fn n(x: usize) -> J { J::Num(x as f64) }
}

pub fn escape_into(out: &mut String, s: &str) {
    out.push('"');
    for ch in s.chars() {
        match ch {
            '"' => out.push_str("\\\""),
            '\\' => out.push_str("\\\\"),
            '\n' => out.push_str("\\n"),
            '\r' => out.push_str("\\r"),
            '\t' => out.push_str("\\t"),
            c if (c as u32) < 0x20 || c == '\u{7f}' || c == '\u{2028}' || c == '\u{2029}' => {
                out.push_str(&format!("\\u{:04x}", c as u32));
            }
            c => out.push(c),
        }
    }
    out.push('"');
}

pub fn write(out: &mut String, j: &J) {
    match j {
        J::Null => out.push_str("null"),
        J::Bool(b) => out.push_str(if *b { "true" } else { "false" }),
        J::Num(n) => {
            if n.fract() == 0.0 && n.abs() < 1e15 {
                out.push_str(&format!("{}", *n as i64));
            } else {
                out.push_str(&format!("{}", n));
            }
        }
        J::Str(s) => escape_into(out, s),
        J::Arr(a) => {
            out.push('[');
            for (i, x) in a.iter().enumerate() {
                if i > 0 { out.push(','); }
                write(out, x);
            }
            out.push(']');
        }
        J::Obj(o) => {
            out.push('{');
            for (i, (k, v)) in o.iter().enumerate() {
                if i > 0 { out.push(','); }
                escape_into(out, k);
                out.push(':');
                write(out, v);
            }
            out.push('}');
        }
        J::Raw(r) => out.push_str(r),
    }
}

pub fn to_string(j: &J) -> String {
    let mut s = String::new();
    write(&mut s, j);
    s
}

pub struct Parser<'a> {
    b: &'a [u8],
    i: usize,
}

impl<'a> Parser<'a> {
    pub fn new(s: &'a str) -> Parser<'a> {
        Parser { b: s.as_bytes(), i: 0 }
    }
    fn ws(&mut self) {
        while self.i < self.b.len() && (self.b[self.i] as char).is_ascii_whitespace() {
            self.i += 1;
        }
    }
    pub fn parse(&mut self) -> Result<J, String> {
        self.ws();
        if self.i >= self.b.len() {
            return Err("unexpected end".into());
        }
        match self.b[self.i] {
            b'{' => {
                self.i += 1;
                let mut v = Vec::new();
                self.ws();
                if self.i < self.b.len() && self.b[self.i] == b'}' {
                    self.i += 1;
                    return Ok(J::Obj(v));
                }
                loop {
                    self.ws();
                    let k = match self.parse()? {
                        J::Str(s) => s,
                        _ => return Err("object key must be string".into()),
                    };
                    self.ws();
                    if self.i >= self.b.len() || self.b[self.i] != b':' {
                        return Err("expected ':'".into());
                    }
                    self.i += 1;
                    let val = self.parse()?;
                    v.push((k, val));
                    self.ws();
                    if self.i >= self.b.len() {
                        return Err("unterminated object".into());
                    }
                    match self.b[self.i] {
                        b',' => self.i += 1,
                        b'}' => {
                            self.i += 1;
                            return Ok(J::Obj(v));
                        }
                        _ => return Err("expected ',' or '}'".into()),
                    }
                }
            }
            b'[' => {
                self.i += 1;
                let mut v = Vec::new();
                self.ws();
                if self.i < self.b.len() && self.b[self.i] == b']' {
                    self.i += 1;
                    return Ok(J::Arr(v));
                }
                loop {
                    v.push(self.parse()?);
                    self.ws();
                    if self.i >= self.b.len() {
                        return Err("unterminated array".into());
                    }
                    match self.b[self.i] {
                        b',' => self.i += 1,
                        b']' => {
                            self.i += 1;
                            return Ok(J::Arr(v));
                        }
                        _ => return Err("expected ',' or ']'".into()),
                    }
                }
            }
            b'"' => {
                self.i += 1;
                let mut out: Vec<u8> = Vec::new();
                loop {
                    if self.i >= self.b.len() {
                        return Err("unterminated string".into());
                    }
                    let c = self.b[self.i];
                    self.i += 1;
                    match c {
                        b'"' => break,
                        b'\\' => {
                            if self.i >= self.b.len() {
                                return Err("bad escape".into());
                            }
                            let e = self.b[self.i];
                            self.i += 1;
                            match e {
                                b'"' => out.push(b'"'),
                                b'\\' => out.push(b'\\'),
                                b'/' => out.push(b'/'),
                                b'b' => out.push(8),
                                b'f' => out.push(12),
                                b'n' => out.push(b'\n'),
                                b'r' => out.push(b'\r'),
                                b't' => out.push(b'\t'),
                                b'u' => {
                                    let mut cp = self.hex4()?;
                                    if (0xD800..0xDC00).contains(&cp) {
                                        // surrogate pair
                                        if self.i + 1 < self.b.len() && self.b[self.i] == b'\\' && self.b[self.i + 1] == b'u' {
                                            self.i += 2;
                                            let lo = self.hex4()?;
                                            if (0xDC00..0xE000).contains(&lo) {
                                                cp = 0x10000 + ((cp - 0xD800) << 10) + (lo - 0xDC00);
                                            } else {
                                                cp = 0xFFFD;
                                            }
                                        } else {
                                            cp = 0xFFFD;
                                        }
                                    } else if (0xDC00..0xE000).contains(&cp) {
                                        cp = 0xFFFD;
                                    }
                                    let ch = char::from_u32(cp).unwrap_or('\u{FFFD}');
                                    let mut buf = [0u8; 4];
                                    out.extend_from_slice(ch.encode_utf8(&mut buf).as_bytes());
                                }
                                _ => return Err("bad escape char".into()),
                            }
                        }
                        c => out.push(c),
                    }
                }
                String::from_utf8(out).map(J::Str).map_err(|_| "invalid utf8 in string".to_string())
            }
            b't' if self.b[self.i..].starts_with(b"true") => {
                self.i += 4;
                Ok(J::Bool(true))
            }
            b'f' if self.b[self.i..].starts_with(b"false") => {
                self.i += 5;
                Ok(J::Bool(false))
            }
            b'n' if self.b[self.i..].starts_with(b"null") => {
                self.i += 4;
                Ok(J::Null)
            }
            _ => {
                let start = self.i;
                while self.i < self.b.len() && matches!(self.b[self.i], b'-' | b'+' | b'.' | b'e' | b'E' | b'0'..=b'9') {
                    self.i += 1;
                }
                let s = std::str::from_utf8(&self.b[start..self.i]).unwrap_or("");
                s.parse::<f64>().map(J::Num).map_err(|_| format!("bad token at byte {}", start))
            }
        }
    }
    fn hex4(&mut self) -> Result<u32, String> {
        if self.i + 4 > self.b.len() {
            return Err("bad \\u escape".into());
        }
        let s = std::str::from_utf8(&self.b[self.i..self.i + 4]).map_err(|_| "bad \\u escape".to_string())?;
        self.i += 4;
        u32::from_str_radix(s, 16).map_err(|_| "bad \\u escape".to_string())
    }
}

pub fn parse(s: &str) -> Result<J, String> {
    let mut p = Parser::new(s);
    let v = p.parse()?;
    p.ws();
    if p.i != p.b.len() {
        return Err("trailing characters".into());
    }
    Ok(v)
}
