//! mcdriver: the only program that touches the MathCAT library on behalf of the monitors.
//!
//! Line protocol. Each input line is a JSON object
//!     {"s":"<session>", "op":"<name>", "a":[args...]}
//! and produces exactly one output line
//!     {"n":<seq>, "r":"ok"|"err"|"panic", "v":<value>, "e":"<error chain>", "p":{"msg","loc","fn"}, "us":<micro seconds>}
//! A session is a thread of this process with its own thread-local MathCAT state.
//! Before an operation enters the library a line {"n":<seq>,"call":"<op>"} is written when MCDRIVER_CALL_EVENTS=1
//! (used for batch logs under sanitizers, where the process may die inside the call).
//!
//! Meta operations:
//!   batch  a=[op,...]           run the ops in order in this session, value = array of results
//!   fresh  a=[op,...]           run the ops in a brand-new thread (fresh MathCAT state), value = array of results
//!   end_session                 terminate the session thread
//!   quit                        leave
//! Modes:
//!   mcdriver                    read ops from stdin, write results to stdout
//!   mcdriver --parallel <out-prefix> <script>...   run every script on its own thread, released together by a barrier;
//!                               results of script i go to <out-prefix>.<i>

mod json;
use json::J;
use libmathcat::*;
use std::cell::RefCell;
use std::collections::HashMap;
use std::io::{BufRead, Write};
use std::panic;
use std::sync::mpsc;
use std::time::Instant;

thread_local! {
    static LAST_PANIC: RefCell<Option<(String, String, String)>> = RefCell::new(None);
}

fn first_mathcat_frame(bt: &str) -> String {
    // frames look like "  12: libmathcat::canonicalize::CanonicalizeContext::clean_mathml" followed by "at <file>:<line>"
    let mut frames: Vec<String> = Vec::new();
    for line in bt.lines() {
        let t = line.trim();
        if let Some(pos) = t.find(": ") {
            let (idx, rest) = t.split_at(pos);
            if idx.chars().all(|c| c.is_ascii_digit()) {
                let name = rest[2..].trim();
                if name.contains("libmathcat::") {
                    // strip generic noise and hash
                    let mut n = name.to_string();
                    if let Some(h) = n.rfind("::h") {
                        if n[h + 3..].chars().all(|c| c.is_ascii_hexdigit()) && n.len() - h == 19 {
                            n.truncate(h);
                        }
                    }
                    frames.push(n);
                }
            }
        }
    }
    // first libmathcat frame, plus up to 2 callers for context
    frames.iter().take(3).cloned().collect::<Vec<String>>().join(" <- ")
}

fn install_panic_hook() {
    panic::set_hook(Box::new(|info| {
        let msg = if let Some(s) = info.payload().downcast_ref::<&str>() {
            s.to_string()
        } else if let Some(s) = info.payload().downcast_ref::<String>() {
            s.clone()
        } else {
            "<non-string panic payload>".to_string()
        };
        let loc = match info.location() {
            Some(l) => format!("{}:{}:{}", l.file(), l.line(), l.column()),
            None => "?".to_string(),
        };
        let bt = std::backtrace::Backtrace::force_capture();
        let func = first_mathcat_frame(&format!("{}", bt));
        LAST_PANIC.with(|p| *p.borrow_mut() = Some((msg, loc, func)));
    }));
}

fn arg_str(a: &[J], i: usize) -> Result<String, String> {
    a.get(i).and_then(|x| x.as_str()).map(|s| s.to_string()).ok_or_else(|| format!("driver: argument {} must be a string", i))
}
fn arg_usize(a: &[J], i: usize) -> Result<usize, String> {
    match a.get(i).and_then(|x| x.as_f64()) {
        Some(f) if f >= 0.0 => Ok(f as usize),
        _ => Err(format!("driver: argument {} must be a non-negative number", i)),
    }
}
fn arg_bool(a: &[J], i: usize) -> Result<bool, String> {
    a.get(i).and_then(|x| x.as_bool()).ok_or_else(|| format!("driver: argument {} must be a bool", i))
}

enum Outcome {
    Ok(J),
    Err(String),
    DriverErr(String),
}

fn chain(e: &libmathcat::errors::Error) -> Outcome {
    // errors_to_string is itself a public entry point and is exercised on every error
    Outcome::Err(errors_to_string(e))
}

fn call_library(op: &str, a: &[J]) -> Outcome {
    macro_rules! arg {
        ($e:expr) => {
            match $e {
                Ok(v) => v,
                Err(m) => return Outcome::DriverErr(m),
            }
        };
    }
    match op {
        "set_rules_dir" => match set_rules_dir(arg!(arg_str(a, 0))) {
            Ok(()) => Outcome::Ok(J::Null),
            Err(e) => chain(&e),
        },
        "get_version" => Outcome::Ok(J::Str(get_version())),
        "set_mathml" => match set_mathml(arg!(arg_str(a, 0))) {
            Ok(s) => Outcome::Ok(J::Str(s)),
            Err(e) => chain(&e),
        },
        "get_spoken_text" => match get_spoken_text() {
            Ok(s) => Outcome::Ok(J::Str(s)),
            Err(e) => chain(&e),
        },
        "get_overview_text" => match get_overview_text() {
            Ok(s) => Outcome::Ok(J::Str(s)),
            Err(e) => chain(&e),
        },
        "get_preference" => match get_preference(arg!(arg_str(a, 0))) {
            Ok(s) => Outcome::Ok(J::Str(s)),
            Err(e) => chain(&e),
        },
        "set_preference" => match set_preference(arg!(arg_str(a, 0)), arg!(arg_str(a, 1))) {
            Ok(()) => Outcome::Ok(J::Null),
            Err(e) => chain(&e),
        },
        "get_braille" => match get_braille(arg!(arg_str(a, 0))) {
            Ok(s) => Outcome::Ok(J::Str(s)),
            Err(e) => chain(&e),
        },
        "get_navigation_braille" => match get_navigation_braille() {
            Ok(s) => Outcome::Ok(J::Str(s)),
            Err(e) => chain(&e),
        },
        "do_navigate_keypress" => match do_navigate_keypress(
            arg!(arg_usize(a, 0)),
            arg!(arg_bool(a, 1)),
            arg!(arg_bool(a, 2)),
            arg!(arg_bool(a, 3)),
            arg!(arg_bool(a, 4)),
        ) {
            Ok(s) => Outcome::Ok(J::Str(s)),
            Err(e) => chain(&e),
        },
        "do_navigate_command" => match do_navigate_command(arg!(arg_str(a, 0))) {
            Ok(s) => Outcome::Ok(J::Str(s)),
            Err(e) => chain(&e),
        },
        "set_navigation_node" => match set_navigation_node(arg!(arg_str(a, 0)), arg!(arg_usize(a, 1))) {
            Ok(()) => Outcome::Ok(J::Null),
            Err(e) => chain(&e),
        },
        "get_navigation_mathml" => match get_navigation_mathml() {
            Ok((s, off)) => Outcome::Ok(J::Arr(vec![J::Str(s), J::n(off)])),
            Err(e) => chain(&e),
        },
        "get_navigation_mathml_id" => match get_navigation_mathml_id() {
            Ok((s, off)) => Outcome::Ok(J::Arr(vec![J::Str(s), J::n(off)])),
            Err(e) => chain(&e),
        },
        "get_braille_position" => match get_braille_position() {
            Ok((s, e)) => Outcome::Ok(J::Arr(vec![J::n(s), J::n(e)])),
            Err(e) => chain(&e),
        },
        "get_navigation_node_from_braille_position" => match get_navigation_node_from_braille_position(arg!(arg_usize(a, 0))) {
            Ok((s, off)) => Outcome::Ok(J::Arr(vec![J::Str(s), J::n(off)])),
            Err(e) => chain(&e),
        },
        // guarded observation hooks (feature verif-hooks of the library)
        "nav_snapshot" => Outcome::Ok(J::Raw(libmathcat::verif_nav_snapshot())),
        "loaded_files" => Outcome::Ok(J::Raw(libmathcat::verif_loaded_files())),
        "rule_hits" => Outcome::Ok(J::Raw(libmathcat::verif_rule_hits())),
        "sleep_ms" => {
            std::thread::sleep(std::time::Duration::from_millis(arg!(arg_usize(a, 0)) as u64));
            Outcome::Ok(J::Null)
        }
        _ => Outcome::DriverErr(format!("driver: unknown op '{}'", op)),
    }
}

fn check_strings(j: &J) -> bool {
    // every string handed to the caller must be valid UTF-8 made of valid scalar values
    match j {
        J::Str(s) => std::str::from_utf8(s.as_bytes()).is_ok(),
        J::Arr(a) => a.iter().all(check_strings),
        _ => true,
    }
}

fn exec(op: &J) -> J {
    let name = op.get("op").and_then(|x| x.as_str()).unwrap_or("").to_string();
    let empty = Vec::new();
    let args = op.get("a").and_then(|x| x.as_arr()).unwrap_or(&empty);
    let start = Instant::now();
    let mut fields: Vec<(String, J)> = Vec::new();
    match name.as_str() {
        "batch" => {
            let mut results = Vec::with_capacity(args.len());
            for sub in args {
                results.push(exec(sub));
            }
            fields.push(("r".into(), J::s("ok")));
            fields.push(("v".into(), J::Arr(results)));
        }
        "fresh" => {
            let ops: Vec<J> = args.clone();
            let stack_kb = std::env::var("MCDRIVER_STACK_KB").ok().and_then(|s| s.parse::<usize>().ok()).unwrap_or(8192);
            let handle = std::thread::Builder::new()
                .stack_size(stack_kb * 1024)
                .spawn(move || ops.iter().map(exec).collect::<Vec<J>>())
                .expect("driver: cannot spawn thread");
            match handle.join() {
                Ok(results) => {
                    fields.push(("r".into(), J::s("ok")));
                    fields.push(("v".into(), J::Arr(results)));
                }
                Err(_) => {
                    fields.push(("r".into(), J::s("driver_error")));
                    fields.push(("e".into(), J::s("fresh thread died")));
                }
            }
        }
        _ => {
            LAST_PANIC.with(|p| *p.borrow_mut() = None);
            let result = panic::catch_unwind(panic::AssertUnwindSafe(|| call_library(&name, args)));
            match result {
                Ok(Outcome::Ok(v)) => {
                    let valid = check_strings(&v);
                    fields.push(("r".into(), J::s("ok")));
                    fields.push(("v".into(), v));
                    if !valid {
                        fields.push(("bad_utf8".into(), J::Bool(true)));
                    }
                }
                Ok(Outcome::Err(e)) => {
                    fields.push(("r".into(), J::s("err")));
                    fields.push(("e".into(), J::Str(e)));
                }
                Ok(Outcome::DriverErr(e)) => {
                    fields.push(("r".into(), J::s("driver_error")));
                    fields.push(("e".into(), J::Str(e)));
                }
                Err(_) => {
                    let (msg, loc, func) = LAST_PANIC
                        .with(|p| p.borrow_mut().take())
                        .unwrap_or(("<unknown>".into(), "?".into(), "".into()));
                    fields.push(("r".into(), J::s("panic")));
                    fields.push((
                        "p".into(),
                        J::Obj(vec![("msg".into(), J::Str(msg)), ("loc".into(), J::Str(loc)), ("fn".into(), J::Str(func))]),
                    ));
                }
            }
        }
    }
    fields.push(("us".into(), J::n(start.elapsed().as_micros() as usize)));
    J::Obj(fields)
}

struct Session {
    tx: mpsc::Sender<Option<J>>,
    rx: mpsc::Receiver<J>,
    handle: Option<std::thread::JoinHandle<()>>,
}

fn spawn_session(name: &str) -> Session {
    let (tx, thread_rx) = mpsc::channel::<Option<J>>();
    let (thread_tx, rx) = mpsc::channel::<J>();
    let stack_kb = std::env::var("MCDRIVER_STACK_KB").ok().and_then(|s| s.parse::<usize>().ok()).unwrap_or(8192);
    let handle = std::thread::Builder::new()
        .name(format!("sess-{}", name))
        .stack_size(stack_kb * 1024)
        .spawn(move || {
            while let Ok(Some(op)) = thread_rx.recv() {
                let res = exec(&op);
                if thread_tx.send(res).is_err() {
                    break;
                }
            }
        })
        .expect("driver: cannot spawn session thread");
    Session { tx, rx, handle: Some(handle) }
}

fn with_seq(seq: usize, res: J) -> String {
    let mut fields = vec![("n".to_string(), J::n(seq))];
    if let J::Obj(f) = res {
        fields.extend(f);
    }
    json::to_string(&J::Obj(fields))
}

fn run_stream<R: BufRead, W: Write>(input: R, mut out: W) {
    let call_events = std::env::var("MCDRIVER_CALL_EVENTS").map(|v| v == "1").unwrap_or(false);
    let mut sessions: HashMap<String, Session> = HashMap::new();
    let mut seq = 0usize;
    for line in input.lines() {
        let line = match line {
            Ok(l) => l,
            Err(e) => {
                let _ = writeln!(out, "{{\"n\":{},\"r\":\"driver_error\",\"e\":\"cannot read input: {}\"}}", seq, e);
                let _ = out.flush();
                break;
            }
        };
        if line.trim().is_empty() {
            continue;
        }
        let op = match json::parse(&line) {
            Ok(j) => j,
            Err(e) => {
                let _ = writeln!(out, "{}", with_seq(seq, J::Obj(vec![("r".into(), J::s("driver_error")), ("e".into(), J::Str(format!("bad json: {}", e)))])));
                let _ = out.flush();
                seq += 1;
                continue;
            }
        };
        let name = op.get("op").and_then(|x| x.as_str()).unwrap_or("").to_string();
        if name == "quit" {
            break;
        }
        let sess_name = op.get("s").and_then(|x| x.as_str()).unwrap_or("s0").to_string();
        if name == "end_session" {
            if let Some(mut s) = sessions.remove(&sess_name) {
                let _ = s.tx.send(None);
                if let Some(h) = s.handle.take() {
                    let _ = h.join();
                }
            }
            let _ = writeln!(out, "{}", with_seq(seq, J::Obj(vec![("r".into(), J::s("ok")), ("v".into(), J::Null)])));
            let _ = out.flush();
            seq += 1;
            continue;
        }
        if call_events {
            let _ = writeln!(out, "{{\"n\":{},\"call\":\"{}\"}}", seq, name.replace('"', "'"));
            let _ = out.flush();
        }
        let session = sessions.entry(sess_name.clone()).or_insert_with(|| spawn_session(&sess_name));
        let res = if session.tx.send(Some(op)).is_err() {
            J::Obj(vec![("r".into(), J::s("driver_error")), ("e".into(), J::s("session thread is gone"))])
        } else {
            match session.rx.recv() {
                Ok(r) => r,
                Err(_) => J::Obj(vec![("r".into(), J::s("driver_error")), ("e".into(), J::s("session thread died"))]),
            }
        };
        let _ = writeln!(out, "{}", with_seq(seq, res));
        let _ = out.flush();
        seq += 1;
    }
    for (_, mut s) in sessions.drain() {
        let _ = s.tx.send(None);
        if let Some(h) = s.handle.take() {
            let _ = h.join();
        }
    }
}

fn run_parallel(out_prefix: &str, scripts: &[String]) {
    use std::sync::{Arc, Barrier};
    let barrier = Arc::new(Barrier::new(scripts.len()));
    let stack_kb = std::env::var("MCDRIVER_STACK_KB").ok().and_then(|s| s.parse::<usize>().ok()).unwrap_or(8192);
    let mut handles = Vec::new();
    for (i, script) in scripts.iter().enumerate() {
        let barrier = Arc::clone(&barrier);
        let script = script.clone();
        let out_path = format!("{}.{}", out_prefix, i);
        handles.push(
            std::thread::Builder::new()
                .name(format!("par-{}", i))
                .stack_size(stack_kb * 1024)
                .spawn(move || {
                    let text = std::fs::read_to_string(&script).expect("driver: cannot read script");
                    let ops: Vec<J> = text.lines().filter(|l| !l.trim().is_empty()).map(|l| json::parse(l).expect("driver: bad json in script")).collect();
                    let mut out = std::io::BufWriter::new(std::fs::File::create(&out_path).expect("driver: cannot create output"));
                    barrier.wait();
                    for (seq, op) in ops.iter().enumerate() {
                        let res = exec(op);
                        let _ = writeln!(out, "{}", with_seq(seq, res));
                    }
                    let _ = out.flush();
                })
                .expect("driver: cannot spawn thread"),
        );
    }
    for h in handles {
        let _ = h.join();
    }
}

fn main() {
    install_panic_hook();
    let args: Vec<String> = std::env::args().collect();
    if args.len() >= 4 && args[1] == "--parallel" {
        run_parallel(&args[2], &args[3..]);
        return;
    }
    let stdin = std::io::stdin();
    let stdout = std::io::stdout();
    run_stream(stdin.lock(), std::io::BufWriter::new(stdout.lock()));
}
