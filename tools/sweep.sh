#!/bin/bash
# sweep.sh <tier> <seed> [<seed> ...]  : runs every registered check at the given seeds and prints one line per run; non-zero exit if any run is not silent
cd "$(dirname "$0")/.."
tier="$1"; shift
bad=0
for seed in "$@"; do
  for p in $(cat tools/integrated.txt); do
    out=$(VERIF_SEED=$seed ./check $p --tier $tier 2>&1)
    rc=$?
    nv=$(echo "$out" | grep -c "^VIOLATION")
    echo "seed=$seed $p rc=$rc violations=$nv | $(echo "$out" | tail -1 | cut -c1-140)"
    if [ $rc -ne 0 ] || [ $nv -ne 0 ]; then bad=1; echo "$out" | grep "^VIOLATION" | head -5; fi
  done
done
exit $bad
