#!/bin/bash
# land.sh <diff> <commit message file>   : apply a fix proposal to the lead's scratch worktree and commit it there
set -e
cd /tmp/wt-lead
git apply --check "$1"
git apply "$1"
git add -A src Rules
git commit -q -F "$2"
git log --oneline | head -1
