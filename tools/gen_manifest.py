#!/usr/bin/env python3
"""Regenerates MANIFEST.json from tools/checks.d/<Cxx>.json (one small file per claimed check:
{"level","text","note","technique","design"}) and tools/not_applicable.json ({"Cxx": "reason"}).
A property with neither is listed under not_applicable as 'not built'."""
import json
import os
import subprocess

HERE = os.path.dirname(os.path.abspath(__file__))
VERIF = os.path.dirname(HERE)
NOT_YET = "check not built yet in this phase of the work (build in progress); nothing is claimed for it"


def main():
    props = [json.loads(l) for l in open(os.path.join(VERIF, "properties.jsonl"))]
    checks = {}
    d = os.path.join(HERE, "checks.d")
    integrated = None
    if os.path.exists(os.path.join(HERE, "integrated.txt")):
        integrated = set(open(os.path.join(HERE, "integrated.txt")).read().split())
    for f in sorted(os.listdir(d)):
        if f.endswith(".json") and (integrated is None or f[:-5] in integrated):
            checks[f[:-5]] = json.load(open(os.path.join(d, f)))
    na = {}
    if os.path.exists(os.path.join(HERE, "not_applicable.json")):
        na = json.load(open(os.path.join(HERE, "not_applicable.json")))
    try:
        hook_commits = subprocess.run(["git", "-C", "/repo", "log", "--format=%h %s", "--grep=^verif-hooks"], capture_output=True, text=True).stdout.strip().splitlines()
    except Exception:
        hook_commits = []
    m = {
        "version": 1,
        "setup_cmd": "./tools/setup.sh",
        "hooks": {
            "guard": "cargo feature verif-hooks (off by default)",
            "enable": "the driver crate /verif/harness depends on mathcat = { path = \"/repo\", features = [\"verif-hooks\"] }; every check runs cargo build there, "
                      "which rebuilds the library from /repo's working tree with the feature on",
            "baseline_off_cmd": "/verif/tools/baseline_off.sh",
            "source_commits": [c.split()[0] for c in hook_commits],
            "add_only": True,
        },
        "engines": [
            {"name": "mcdriver", "path": "harness/", "serves_properties": sorted(checks),
             "kind_free_text": "Rust driver process linked against /repo (feature verif-hooks): JSON-lines op stream in, one event per public API call out; "
                               "catch_unwind + panic hook, sessions = threads, fresh-session reference, parallel barrier mode; built natively, in debug profile, with ASan and with TSan"},
            {"name": "mon", "path": "mon/", "serves_properties": sorted(checks),
             "kind_free_text": "Python 3 (stdlib only) workload generators, oracles/monitors over the recorded events, shrinker, known-finding classification, evidence writer"},
        ],
        "checks": [],
        "not_applicable": [],
        "notes": "All checks: ./check <Cxx> --tier quick|thorough ; exit 0 held / 1 violation / 2 harness failure (inconclusive). "
                 "known_findings.json and known_findings.d/*.json list genuine defects (open: KNOWN-FINDING line, fixed: replayed as regression). See DESIGN.md.",
    }
    for p in props:
        pid = p["id"]
        if pid in checks:
            c = checks[pid]
            m["checks"].append({
                "property_id": pid,
                "quick_cmd": "./check %s --tier quick" % pid,
                "thorough_cmd": "./check %s --tier thorough" % pid,
                "evidence_file": "/verif/evidence/%s.json" % pid,
                "replay_cmd_template": "./check %s --replay {path}" % pid,
                "engine": "mcdriver+mon",
                "level_claimed": {"category": c["level"], "text": c["text"], "design_ref": c["design"]},
                "level_note": c["note"],
                "technique": c["technique"],
            })
        else:
            m["not_applicable"].append({"property_id": pid, "reason": na.get(pid, NOT_YET)})
    with open(os.path.join(VERIF, "MANIFEST.json"), "w") as f:
        json.dump(m, f, indent=1, ensure_ascii=False)
        f.write("\n")


if __name__ == "__main__":
    main()
