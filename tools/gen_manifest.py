#!/usr/bin/env python3
"""Regenerates MANIFEST.json from the table below (kept in one place so that it is always valid)."""
import json
import os
import subprocess

HERE = os.path.dirname(os.path.abspath(__file__))
VERIF = os.path.dirname(HERE)

CHECKS = {
    "C18": dict(
        level="exploration",
        text="Exhaustive enumeration of the finite (token element x mathvariant value x character) table through set_mathml of the real library; "
             "every output character is judged against the Unicode Character Database (independent oracle), for injectivity, and for being an "
             "assigned scalar value; the same workload is repeated in an AddressSanitizer build (quick) and additionally a debug-assertion build "
             "(thorough) because the mapping ends in an unchecked integer-to-char conversion. Exhaustive over the table, so the only residual "
             "risk is context dependence of the token mapping.",
        note="Trusts Python's unicodedata (UCD 14.0) and XML parser; token text is read from set_mathml's return value.",
        technique="exhaustive runtime monitoring with UCD oracle + ASan re-run",
        design="6/C18"),
    "C04": dict(
        level="exploration",
        text="Runtime monitor over get_spoken_text of the real library: random textbook-grammar expressions carry a distinct decimal literal at every operand "
             "position (unambiguous histories), generated per session with that session's decimal mark, for every shipped language x style x verbosity and "
             "random ClearSpeak_* preference subsets; the oracle counts each literal in the speech. Violations are delta-debugged to a minimal witness and "
             "classified against known_findings.json (five genuine rule/code defects are open there). Sampling, not proof: reach is the generator's grammar "
             "(33 construct kinds, depth<=4) and the measured rule coverage reported in the evidence.",
        note="Operands lost inside set_mathml are C01's; set_mathml errors are C08's. Trusts the driver's boundary recording and Python's re module.",
        technique="runtime monitoring with unique planted literals + delta debugging",
        design="6/C04"),
}

NOT_YET = "check not built yet in this phase of the work (build in progress); nothing is claimed for it"


def main():
    props = [json.loads(l) for l in open(os.path.join(VERIF, "properties.jsonl"))]
    try:
        hook_commits = subprocess.run(["git", "-C", "/repo", "log", "--format=%h %s", "--grep=^verif-hooks"], capture_output=True, text=True).stdout.strip().splitlines()
    except Exception:
        hook_commits = []
    m = {
        "version": 1,
        "setup_cmd": "./tools/setup.sh",
        "hooks": {
            "guard": "cargo feature verif-hooks (off by default)",
            "enable": "the driver crate /verif/harness depends on mathcat = { path = \"/repo\", features = [\"verif-hooks\"] }; every check runs cargo build there, "
                      "which rebuilds the library from /repo's working tree with the feature on",
            "baseline_off_cmd": "/verif/tools/baseline_off.sh",
            "source_commits": [c.split()[0] for c in hook_commits],
            "add_only": True,
        },
        "engines": [
            {"name": "mcdriver", "path": "harness/", "serves_properties": sorted(CHECKS),
             "kind_free_text": "Rust driver process linked against /repo (feature verif-hooks): JSON-lines op stream in, one event per public API call out; "
                               "catch_unwind + panic hook, sessions = threads, fresh-session reference, parallel barrier mode; built natively, in debug profile, with ASan and with TSan"},
            {"name": "mon", "path": "mon/", "serves_properties": sorted(CHECKS),
             "kind_free_text": "Python 3 (stdlib only) workload generators, oracles/monitors over the recorded events, shrinker, known-finding classification, evidence writer"},
        ],
        "checks": [],
        "not_applicable": [],
        "notes": "All checks: ./check <Cxx> --tier quick|thorough ; exit 0 held / 1 violation / 2 harness failure (inconclusive). "
                 "known_findings.json lists genuine defects (open: KNOWN-FINDING line, fixed: replayed as regression). See DESIGN.md.",
    }
    for p in props:
        pid = p["id"]
        if pid in CHECKS:
            c = CHECKS[pid]
            m["checks"].append({
                "property_id": pid,
                "quick_cmd": "./check %s --tier quick" % pid,
                "thorough_cmd": "./check %s --tier thorough" % pid,
                "evidence_file": "/verif/evidence/%s.json" % pid,
                "replay_cmd_template": "./check %s --replay {path}" % pid,
                "engine": "mcdriver+mon",
                "level_claimed": {"category": c["level"], "text": c["text"], "design_ref": c["design"]},
                "level_note": c["note"],
                "technique": c["technique"],
            })
        else:
            m["not_applicable"].append({"property_id": pid, "reason": NOT_YET})
    with open(os.path.join(VERIF, "MANIFEST.json"), "w") as f:
        json.dump(m, f, indent=1, ensure_ascii=False)
        f.write("\n")


if __name__ == "__main__":
    main()
