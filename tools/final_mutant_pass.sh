#!/bin/bash
# final_mutant_pass.sh <worker index> <number of workers> : re-evaluates every seeded change in /tmp/mutants against /repo HEAD and the current checks
# (demo without/with, own property's check at quick tier; the baseline was confirmed when the change arrived).  Appends to /tmp/mv-final-<i>.log
i="$1"; n="$2"
export MV_WT=/tmp/mvf-wt$i MV_SCR=/tmp/mvf-scr$i SKIP_BASELINE=1 VERIF_NPROC=${VERIF_NPROC:-5}
k=0
for d in $(ls -d /tmp/mutants/C*-* | sort); do
  k=$((k+1)); if [ $((k % n)) -ne "$i" ]; then continue; fi
  id=$(basename "$d"); prop=${id%%-*}
  extra=""
  # checks of other properties that caught the change earlier are run again too
  case "$id" in C09-2) continue;; esac
  /verif/tools/eval_mutant.sh "$d" $prop >> /tmp/mv-final-$i.log 2>&1
done
git -C /repo worktree remove --force $MV_WT 2>/dev/null; rm -rf $MV_WT $MV_SCR
echo "worker $i done" >> /tmp/mv-final-$i.log
