#!/bin/bash
# Runs the repository's own test suite with the verification guard OFF (no --features verif-hooks)
# and checks that every test of the pinned stable baseline still passes.
set -u
HERE="$(cd "$(dirname "$0")" && pwd)"
REPO="${MATHCAT_REPO:-/repo}"
cd "$REPO" || exit 2
mkdir -p "$REPO/target"
export CARGO_NET_OFFLINE=true
rm -f "$REPO/target/nextest/pb/junit.xml"
cargo nextest run --workspace --no-fail-fast --tool-config-file "pb:$HERE/nextest.toml" --profile pb --test-threads 8 --offline >"$REPO/target/verif_baseline.log" 2>&1
python3 - "$REPO/target/nextest/pb/junit.xml" "$HERE/baseline_stable_pass.txt" <<'PY'
import sys, xml.etree.ElementTree as ET
junit, base = sys.argv[1], sys.argv[2]
try:
    root = ET.parse(junit).getroot()
except Exception as e:
    print("baseline: cannot read junit results:", e); sys.exit(2)
passed, failed = set(), set()
for tc in root.iter("testcase"):
    tid = (tc.get("classname") or "") + "::" + (tc.get("name") or "")
    if tc.find("failure") is not None or tc.find("error") is not None or tc.find("flakyFailure") is not None or tc.find("rerunFailure") is not None:
        failed.add(tid)
    elif tc.find("skipped") is None:
        passed.add(tid)
passed -= failed
want = [l.strip() for l in open(base) if l.strip()]
missing = [t for t in want if t not in passed]
print("baseline (guard off): %d passed, %d failed, %d of %d stable-baseline tests pass" % (len(passed), len(failed), len(want) - len(missing), len(want)))
for t in missing[:40]:
    print("  NOT PASSING:", t)
sys.exit(1 if missing else 0)
PY
