#!/bin/bash
# eval_mutant.sh <mutant dir> <property> [more properties...]
# Confirms a seeded change in a scratch worktree of /repo (outside /repo and /verif): demo passes without / fails with the change,
# the baseline still passes with it, and runs the named checks (quick tier) against it.  Prints a summary and writes <mutant dir>/eval.json.
set -u
M="$1"; shift
ID="$(basename "$M")"
WT="${MV_WT:-/tmp/mv-wt}"
SCR="${MV_SCR:-/tmp/mv-scr}"
if [ ! -d "$WT" ]; then git -C /repo worktree add --detach "$WT" HEAD >/dev/null 2>&1; fi
cd "$WT" || exit 2
git checkout -q -- . ; git clean -fdq tests/ ; git checkout -q --detach "$(git -C /repo rev-parse HEAD)"
cp "$M/demo.rs" tests/zz_demo.rs
sed -i "s|/tmp/mut2\?-C[0-9]*|$WT|g" tests/zz_demo.rs
without=$(CARGO_NET_OFFLINE=true cargo test --offline --test zz_demo -- --test-threads=1 2>&1 | grep -E "^test result:" | head -1)
if ! git apply --check "$M/patch.diff" 2>/dev/null; then echo "$ID: patch does not apply to HEAD"; echo "{\"id\":\"$ID\",\"applies\":false}" > "$M/eval.json"; exit 1; fi
git apply "$M/patch.diff"
with=$(CARGO_NET_OFFLINE=true cargo test --offline --test zz_demo -- --test-threads=1 2>&1 | grep -E "^test result:|^error(\[|:)" | head -1)
rm -f tests/zz_demo.rs
base="skipped"
# the lead's own baseline run of this very patch is remembered next to it (keyed by the patch's hash), so a later evaluation of more checks need not repeat it
psum=$(sha1sum "$M/patch.diff" | cut -c1-12)
if [ -f "$M/baseline.$psum.txt" ]; then base=$(cat "$M/baseline.$psum.txt");
elif [ "${SKIP_BASELINE:-0}" != "1" ]; then base=$(MATHCAT_REPO=$WT /verif/tools/baseline_off.sh 2>&1 | head -1); echo "$base" > "$M/baseline.$psum.txt"; fi
res=""
for P in "$@"; do
  out=$(cd /verif && MATHCAT_REPO=$WT VERIF_SCRATCH=$SCR VERIF_SEED=${VERIF_SEED:-0} ./check $P --tier ${TIER:-quick} 2>&1)
  rc=$?
  nv=$(echo "$out" | grep -c "^VIOLATION")
  last=$(echo "$out" | tail -1 | cut -c1-160)
  res="$res{\"check\":\"$P\",\"exit\":$rc,\"violation_lines\":$nv,\"summary\":\"$last\"},"
  echo "$ID $P: exit=$rc violations=$nv | $last"
  if [ "$nv" != "0" ]; then mkdir -p "$M/detected"; for f in $(echo "$out" | grep "^VIOLATION" | sed 's/.*replay=//' | head -3); do cp "$f" "$M/detected/" 2>/dev/null; done; fi
done
git checkout -q -- . ; git clean -fdq tests/
echo "$ID demo without: $without | with: $with | baseline: $base"
python3 - "$M" "$without" "$with" "$base" "[${res%,}]" <<'PY'
import json,sys
m,without,with_,base,res=sys.argv[1:6]
json.dump({"id":m.split('/')[-1],"applies":True,"demo_without_change":without,"demo_with_change":with_,"baseline_with_change":base,"checks":json.loads(res)},open(m+"/eval.json","w"),indent=1)
PY
