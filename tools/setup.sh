#!/bin/bash
# Build every driver flavour once from files on disk (offline). Checks rebuild incrementally afterwards.
set -u
cd "$(dirname "$0")/.."
export CARGO_NET_OFFLINE=true
python3 - <<'PY'
import sys
sys.path.insert(0, ".")
from mon import core
ok = True
for flavour in ("native", "dev", "asan", "tsan"):
    try:
        core.build_driver(flavour, quiet=False)
    except core.Inconclusive as e:
        print("setup: %s" % e)
        if flavour in ("native",):
            ok = False
sys.exit(0 if ok else 1)
PY
