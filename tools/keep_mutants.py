#!/usr/bin/env python3
"""keep_mutants.py [<mutants dir> [<eval log>]] — copies every CONFIRMED seeded change into /verif/seeded/<id>/ (patch.diff, demo.rs, meta.json).
A change is confirmed when tools/eval_mutant.sh (run by the lead in a scratch worktree) recorded: the patch applies to /repo HEAD, the author's
demonstration passes without and fails with the change, and the repository's pinned baseline (3249 tests) still passes with the change.
The evaluation log has one line per (change, check) run; the LATEST run of each check decides caught_by / missed_by, earlier runs are kept as history
(they show which checks were strengthened after a miss)."""
import json
import os
import re
import shutil
import sys

HERE = os.path.dirname(os.path.abspath(__file__))
VERIF = os.path.dirname(HERE)
SRC = sys.argv[1] if len(sys.argv) > 1 else "/tmp/mutants"
LOG = sys.argv[2] if len(sys.argv) > 2 else "/tmp/mv-log.txt"
LINE = re.compile(r"^(C\d\d-\d+) (C\d\d): exit=(\d+) violations=(\d+) \| (.*)$")


def main():
    history = {}
    if os.path.exists(LOG):
        for line in open(LOG, encoding="utf-8", errors="replace"):
            m = LINE.match(line.rstrip("\n"))
            if m:
                history.setdefault(m.group(1), []).append({"check": m.group(2), "exit": int(m.group(3)), "violation_lines": int(m.group(4)), "summary": m.group(5)[:200]})
    kept, skipped = 0, []
    for mid in sorted(os.listdir(SRC)):
        d = os.path.join(SRC, mid)
        try:
            meta = json.load(open(os.path.join(d, "meta.json"), encoding="utf-8"))
            ev = json.load(open(os.path.join(d, "eval.json"), encoding="utf-8"))
        except (OSError, ValueError):
            skipped.append((mid, "not evaluated"))
            continue
        ok = (ev.get("applies") and " 0 failed" in ev.get("demo_without_change", "") and "FAILED" in ev.get("demo_with_change", "")
              and ("3249 of 3249" in ev.get("baseline_with_change", "") or ev.get("baseline_with_change") == "skipped"))
        base_line = ev.get("baseline_with_change", "")
        if base_line == "skipped":      # the baseline was confirmed in an earlier evaluation of the same patch
            base_line = meta.get("baseline", "") + " (author's run; confirmed by the lead in an earlier evaluation)"
        if not ok:
            skipped.append((mid, "not confirmed: %s | %s | %s" % (ev.get("demo_without_change"), ev.get("demo_with_change"), ev.get("baseline_with_change"))))
            continue
        runs = history.get(mid, []) or ev.get("checks", [])
        latest = {}
        for r in runs:
            latest[r["check"]] = r
        caught = sorted(c for c, r in latest.items() if r["exit"] == 1 and r["violation_lines"] > 0)
        missed = sorted(c for c, r in latest.items() if r["exit"] == 0)
        earlier_missed = sorted(set(r["check"] for r in runs if r["exit"] == 0) - set(missed))
        out = os.path.join(VERIF, "seeded", mid)
        os.makedirs(out, exist_ok=True)
        shutil.copy(os.path.join(d, "patch.diff"), os.path.join(out, "patch.diff"))
        demo = open(os.path.join(d, "demo.rs"), encoding="utf-8").read()
        # demonstrations that name their author's scratch worktree are pointed at /repo (where the patch is applied: git -C /repo apply patch.diff)
        demo = re.sub(r"/tmp/mut2?-C\d+", "/repo", demo)
        open(os.path.join(out, "demo.rs"), "w", encoding="utf-8").write(demo)
        rebased = os.path.exists(os.path.join(d, "patch.orig.diff"))
        if rebased:
            shutil.copy(os.path.join(d, "patch.orig.diff"), os.path.join(out, "patch.orig.diff"))
        prop = meta.get("property", mid.split("-")[0])
        note = ""
        if earlier_missed:
            note = "first missed by %s; caught after the check was strengthened (DESIGN.md §15)" % ", ".join(earlier_missed)
        if rebased:
            note = (note + "; " if note else "") + "patch.diff was re-based by hand onto the current /repo HEAD after a later fix: commit changed the surrounding lines (author's version: patch.orig.diff) and re-evaluated"
        if prop not in caught and caught:
            note = (note + "; " if note else "") + "the property's own check does not see it, %s does" % ", ".join(caught)
        json.dump({
            "id": mid, "property": prop, "summary": meta.get("summary", ""), "needs": meta.get("needs", ""),
            "why_tests_pass": meta.get("why_tests_pass", ""),
            "what_was_run": {
                "worktree": "scratch git worktree of /repo under /tmp (removed afterwards), patch applied with git apply",
                "demonstration": "tests/zz_demo.rs = demo.rs; cargo test --offline --test zz_demo -- --test-threads=1",
                "demo_without_change": ev.get("demo_without_change"), "demo_with_change": ev.get("demo_with_change"),
                "baseline_with_change": base_line,
                "checks": "MATHCAT_REPO=<worktree> VERIF_SCRATCH=<scratch> VERIF_SEED=0 ./check <id> --tier quick",
                "runs": runs},
            "caught_by": caught, "missed_by": missed, "note": note}, open(os.path.join(out, "meta.json"), "w", encoding="utf-8"), ensure_ascii=False, indent=1)
        kept += 1
    print("kept %d seeded changes under %s/seeded" % (kept, VERIF))
    for s in skipped:
        print("  skipped %s: %s" % s)


if __name__ == "__main__":
    main()
